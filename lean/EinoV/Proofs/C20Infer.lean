/-
  The type-inference invariant of the builder (used by C07 soundness and C20 order-freeness):
  what `updateToValidateMap` preserves whatever order Go's map iteration takes.
-/
import EinoV.Model.C20Builder
import EinoV.Proofs.C20

namespace EinoV.Build

/-! ### node table lemmas -/

theorem findNode_setTyIn_ne (ns : List Node) (k k' : Key) (t : Ty) (h : k' ≠ k) :
    findNode (setTyIn ns k t) k' = findNode ns k' := by
  induction ns with
  | nil => rfl
  | cons n ns ih =>
    simp only [setTyIn]
    by_cases hk : n.key = k
    · simp only [hk, ↓reduceIte, findNode]
      have : ¬ k = k' := fun e => h e.symm
      simp [this]
    · simp only [hk, ↓reduceIte, findNode]
      split
      · rfl
      · exact ih

theorem findNode_setTyIn_eq (ns : List Node) (k : Key) (t : Ty) :
    findNode (setTyIn ns k t) k =
      (findNode ns k).map (fun n => { n with inTy := some t, outTy := some t }) := by
  induction ns with
  | nil => rfl
  | cons n ns ih =>
    simp only [setTyIn]
    by_cases hk : n.key = k
    · simp [hk, findNode]
    · simp [hk, findNode, ih]

theorem nodeIn_setTy_ne (b : Builder) (k k' : Key) (t : Ty) (h : k' ≠ k) :
    (b.setTy k t).nodeIn k' = b.nodeIn k' := by
  simp [Builder.nodeIn, Builder.setTy, findNode_setTyIn_ne _ _ _ _ h]

theorem nodeOut_setTy_ne (b : Builder) (k k' : Key) (t : Ty) (h : k' ≠ k) :
    (b.setTy k t).nodeOut k' = b.nodeOut k' := by
  simp [Builder.nodeOut, Builder.setTy, findNode_setTyIn_ne _ _ _ _ h]

/-- a key whose input type is unknown is a node key or absent, never START/END -/
theorem nodeIn_none_ne (b : Builder) (k : Key) (h : b.nodeIn k = none) : k ≠ START ∧ k ≠ END := by
  unfold Builder.nodeIn at h
  constructor <;> intro e <;> simp [e] at h
  · by_cases h2 : END = START <;> simp [h2] at h

theorem nodeOut_none_ne (b : Builder) (k : Key) (h : b.nodeOut k = none) : k ≠ START ∧ k ≠ END := by
  unfold Builder.nodeOut at h
  constructor <;> intro e <;> simp [e] at h
  · by_cases h2 : END = START <;> simp [h2] at h

private theorem auxIn (x : Option Node) (t : Ty) :
    (match Option.map (fun n : Node => { n with inTy := some t, outTy := some t }) x with
      | some n => n.inTy
      | none => none) = if x.isSome = true then some t else none := by
  cases x <;> rfl

private theorem auxOut (x : Option Node) (t : Ty) :
    (match Option.map (fun n : Node => { n with inTy := some t, outTy := some t }) x with
      | some n => n.outTy
      | none => none) = if x.isSome = true then some t else none := by
  cases x <;> rfl

/-- after `setTy k t` the key reads `t` on both sides – if it is a node -/
theorem nodeIn_setTy_self (b : Builder) (k : Key) (t : Ty) (h1 : k ≠ START) (h2 : k ≠ END) :
    (b.setTy k t).nodeIn k = if b.hasNode k then some t else none := by
  simp only [Builder.nodeIn, Builder.setTy, h1, h2, ↓reduceIte, findNode_setTyIn_eq, Builder.hasNode]
  exact auxIn _ _

theorem nodeOut_setTy_self (b : Builder) (k : Key) (t : Ty) (h1 : k ≠ START) (h2 : k ≠ END) :
    (b.setTy k t).nodeOut k = if b.hasNode k then some t else none := by
  simp only [Builder.nodeOut, Builder.setTy, h1, h2, ↓reduceIte, findNode_setTyIn_eq, Builder.hasNode]
  exact auxOut _ _


theorem findNode_mem {ns : List Node} {k : Key} {n : Node} (h : findNode ns k = some n) : n ∈ ns ∧ n.key = k := by
  induction ns with
  | nil => simp [findNode] at h
  | cons m ns ih =>
    simp only [findNode] at h
    split at h
    · rename_i hk; simp at h; subst h; exact ⟨List.mem_cons_self, hk⟩
    · have := ih h; exact ⟨List.mem_cons_of_mem _ this.1, this.2⟩

/-! ### invariants -/

def NodeOK (n : Node) : Prop :=
  (n.passthrough = true → n.inTy = n.outTy) ∧ (n.passthrough = false → n.inTy.isSome ∧ n.outTy.isSome)

/-- pass-through nodes have one type for both sides, other nodes are fully typed -/
def WF (b : Builder) : Prop := ∀ n ∈ b.nodes, NodeOK n

theorem WF.untyped_iff {b : Builder} (hw : WF b) (k : Key) : b.nodeIn k = none ↔ b.nodeOut k = none := by
  unfold Builder.nodeIn Builder.nodeOut
  by_cases h1 : k = START
  · simp [h1]
  · by_cases h2 : k = END
    · simp [h1, h2]
    · simp only [h1, h2, ↓reduceIte]
      rcases hf : findNode b.nodes k with _ | n
      · simp
      · have hn := hw n (findNode_mem hf).1
        simp only
        cases hp : n.passthrough
        · have := hn.2 hp
          constructor
          · intro h; rw [h] at this; simp at this
          · intro h; rw [h] at this; simp at this
        · rw [hn.1 hp]

theorem setTyIn_ok (ns : List Node) (k : Key) (t : Ty) (h : ∀ n ∈ ns, NodeOK n) :
    ∀ n ∈ setTyIn ns k t, NodeOK n := by
  induction ns with
  | nil => simp [setTyIn]
  | cons m ns ih =>
    intro n hn
    simp only [setTyIn] at hn
    split at hn
    · rcases List.mem_cons.mp hn with e | e
      · subst e; exact ⟨fun _ => rfl, fun _ => ⟨rfl, rfl⟩⟩
      · exact h n (List.mem_cons_of_mem _ e)
    · rcases List.mem_cons.mp hn with e | e
      · subst e; exact h _ List.mem_cons_self
      · exact ih (fun x hx => h x (List.mem_cons_of_mem _ hx)) n e

theorem WF.setTy {b : Builder} (hw : WF b) (k : Key) (t : Ty) : WF (b.setTy k t) := by
  intro n hn
  exact setTyIn_ok b.nodes k t hw n hn

/-- everything an inference step leaves alone -/
def Builder.frame (b : Builder) :=
  (b.cmp, b.inT, b.outT, b.stateTy, b.controlEdges, b.dataEdges, b.branches, b.startNodes, b.endNodes,
   b.fmRecords, b.mapEdges, b.preBranch, b.preNode, b.buildError, b.compiled,
   b.nodes.map (fun n => (n.key, n.passthrough)))

def Frame (b b' : Builder) : Prop := b'.frame = b.frame

theorem Frame.refl (b : Builder) : Frame b b := rfl
theorem Frame.trans {a b c : Builder} (h1 : Frame a b) (h2 : Frame b c) : Frame a c := by
  unfold Frame at *; rw [h2, h1]

theorem setTyIn_keys (ns : List Node) (k : Key) (t : Ty) :
    (setTyIn ns k t).map (fun n => (n.key, n.passthrough)) = ns.map (fun n => (n.key, n.passthrough)) := by
  induction ns with
  | nil => rfl
  | cons m ns ih =>
    simp only [setTyIn]
    split
    · simp
    · simp [ih]

theorem Frame.setTy (b : Builder) (k : Key) (t : Ty) : Frame b (b.setTy k t) := by
  simp [Frame, Builder.frame, Builder.setTy, setTyIn_keys]

theorem findNode_isSome_of_keys {ns ms : List Node}
    (h : ms.map (fun n => (n.key, n.passthrough)) = ns.map (fun n => (n.key, n.passthrough))) (k : Key) :
    (findNode ms k).isSome = (findNode ns k).isSome ∧
    (findNode ms k).map (·.passthrough) = (findNode ns k).map (·.passthrough) := by
  induction ns generalizing ms with
  | nil => cases ms with
    | nil => simp [findNode]
    | cons m ms => simp at h
  | cons n ns ih =>
    cases ms with
    | nil => simp at h
    | cons m ms =>
      simp only [List.map_cons, List.cons.injEq, Prod.mk.injEq] at h
      simp only [findNode, h.1.1]
      split
      · simp [h.1.2]
      · exact ih h.2

theorem Frame.hasNode {b b' : Builder} (h : Frame b b') (k : Key) : b'.hasNode k = b.hasNode k := by
  have hk : b'.nodes.map (fun n => (n.key, n.passthrough)) = b.nodes.map (fun n => (n.key, n.passthrough)) := by
    have := h; simp only [Frame, Builder.frame, Prod.mk.injEq] at this; exact this.2.2.2.2.2.2.2.2.2.2.2.2.2.2.2
  exact (findNode_isSome_of_keys hk k).1

theorem Frame.isPassthrough {b b' : Builder} (h : Frame b b') (k : Key) :
    EinoV.Build.isPassthrough b' k = EinoV.Build.isPassthrough b k := by
  have hk : b'.nodes.map (fun n => (n.key, n.passthrough)) = b.nodes.map (fun n => (n.key, n.passthrough)) := by
    have := h; simp only [Frame, Builder.frame, Prod.mk.injEq] at this; exact this.2.2.2.2.2.2.2.2.2.2.2.2.2.2.2
  have := (findNode_isSome_of_keys hk k).2
  unfold EinoV.Build.isPassthrough
  rcases h1 : findNode b'.nodes k with _ | n1 <;> rcases h2 : findNode b.nodes k with _ | n2 <;> simp_all

/-- known types stay, run-time check marks stay -/
structure Mono (b b' : Builder) : Prop where
  tin : ∀ k t, b.nodeIn k = some t → b'.nodeIn k = some t
  tout : ∀ k t, b.nodeOut k = some t → b'.nodeOut k = some t
  may : ∀ x, x ∈ b.mayEdges → x ∈ b'.mayEdges

theorem Mono.refl (b : Builder) : Mono b b := ⟨fun _ _ h => h, fun _ _ h => h, fun _ h => h⟩
theorem Mono.trans {a b c : Builder} (h1 : Mono a b) (h2 : Mono b c) : Mono a c :=
  ⟨fun k t h => h2.tin k t (h1.tin k t h), fun k t h => h2.tout k t (h1.tout k t h), fun x h => h2.may x (h1.may x h)⟩

theorem hasNode_of_nodeIn {b : Builder} {k : Key} {t : Ty} (h : b.nodeIn k = some t)
    (h1 : k ≠ START) (h2 : k ≠ END) : b.hasNode k = true := by
  unfold Builder.nodeIn at h
  simp only [h1, h2, ↓reduceIte] at h
  unfold Builder.hasNode
  rcases hf : findNode b.nodes k with _ | n
  · simp [hf] at h
  · rfl

theorem hasNode_of_nodeOut {b : Builder} {k : Key} {t : Ty} (h : b.nodeOut k = some t)
    (h1 : k ≠ START) (h2 : k ≠ END) : b.hasNode k = true := by
  unfold Builder.nodeOut at h
  simp only [h1, h2, ↓reduceIte] at h
  unfold Builder.hasNode
  rcases hf : findNode b.nodes k with _ | n
  · simp [hf] at h
  · rfl

theorem nodeIn_setTy_reserved (b : Builder) (k k' : Key) (t : Ty) (h : k' = START ∨ k' = END) :
    (b.setTy k t).nodeIn k' = b.nodeIn k' := by
  rcases h with h | h <;> simp [Builder.nodeIn, Builder.setTy, h]

theorem nodeOut_setTy_reserved (b : Builder) (k k' : Key) (t : Ty) (h : k' = START ∨ k' = END) :
    (b.setTy k t).nodeOut k' = b.nodeOut k' := by
  rcases h with h | h <;> simp [Builder.nodeOut, Builder.setTy, h]

/-- what `setTy k t` does to any key's types: unchanged, or now `t` -/
theorem setTy_cases (b : Builder) (k : Key) (t : Ty) (x : Key) :
    ((b.setTy k t).nodeIn x = b.nodeIn x ∨ (x = k ∧ (b.setTy k t).nodeIn x = some t)) ∧
    ((b.setTy k t).nodeOut x = b.nodeOut x ∨ (x = k ∧ (b.setTy k t).nodeOut x = some t)) := by
  by_cases hx : x = k
  · subst hx
    by_cases hr : x = START ∨ x = END
    · exact ⟨Or.inl (nodeIn_setTy_reserved b x x t hr), Or.inl (nodeOut_setTy_reserved b x x t hr)⟩
    · have h1 : x ≠ START := fun e => hr (Or.inl e)
      have h2 : x ≠ END := fun e => hr (Or.inr e)
      rw [nodeIn_setTy_self b x t h1 h2, nodeOut_setTy_self b x t h1 h2]
      cases hh : b.hasNode x
      · have hi : b.nodeIn x = none := by
          unfold Builder.nodeIn; simp only [h1, h2, ↓reduceIte]
          unfold Builder.hasNode at hh
          rcases hf : findNode b.nodes x with _ | n
          · rfl
          · simp [hf] at hh
        have ho : b.nodeOut x = none := by
          unfold Builder.nodeOut; simp only [h1, h2, ↓reduceIte]
          unfold Builder.hasNode at hh
          rcases hf : findNode b.nodes x with _ | n
          · rfl
          · simp [hf] at hh
        simp [hi, ho]
      · simp
  · exact ⟨Or.inl (nodeIn_setTy_ne b k x t hx), Or.inl (nodeOut_setTy_ne b k x t hx)⟩

theorem Mono.setTy (b : Builder) (k : Key) (t : Ty)
    (hi : b.nodeIn k = none ∨ b.nodeIn k = some t) (ho : b.nodeOut k = none ∨ b.nodeOut k = some t) :
    Mono b (b.setTy k t) := by
  refine ⟨?_, ?_, fun x h => h⟩
  · intro x t0 hx
    rcases (setTy_cases b k t x).1 with e | ⟨e1, e2⟩
    · rw [e]; exact hx
    · subst e1
      rcases hi with hi | hi
      · rw [hi] at hx; simp at hx
      · rw [hi] at hx; rw [e2]; exact hx
  · intro x t0 hx
    rcases (setTy_cases b k t x).2 with e | ⟨e1, e2⟩
    · rw [e]; exact hx
    · subst e1
      rcases ho with ho | ho
      · rw [ho] at hx; simp at hx
      · rw [ho] at hx; rw [e2]; exact hx


/-! ### soundness of one connection, the work-list invariants -/

/-- the connection `s → e` has been validated under the current types: assignable for sure,
    or possibly assignable with the run-time check installed -/
def SoundE (im : Impl) (b : Builder) (s e : Key) : Prop :=
  match checkAssignable im (b.nodeOut s) (b.nodeIn e) with
  | .mustNot => False
  | .may => (s, e) ∈ b.mayEdges
  | .must => True

theorem checkAssignable_none_right (im : Impl) (x : Option Ty) : checkAssignable im x none = .mustNot := by
  cases x <;> rfl

theorem SoundE.typed {im : Impl} {b : Builder} {s e : Key} (h : SoundE im b s e) :
    ∃ A B, b.nodeOut s = some A ∧ b.nodeIn e = some B := by
  unfold SoundE at h
  rcases ho : b.nodeOut s with _ | A
  · simp [ho, checkAssignable] at h
  · rcases hi : b.nodeIn e with _ | B
    · simp [hi, checkAssignable_none_right] at h
    · exact ⟨A, B, rfl, rfl⟩

theorem SoundE.mono {im : Impl} {b b' : Builder} {s e : Key} (hm : Mono b b') (h : SoundE im b s e) :
    SoundE im b' s e := by
  obtain ⟨A, B, ho, hi⟩ := h.typed
  unfold SoundE at h ⊢
  rw [ho, hi] at h
  rw [hm.tout s A ho, hm.tin e B hi]
  cases hc : checkAssignable im (some A) (some B) <;> simp only [hc] at h ⊢
  · exact hm.may _ h

/-- every pending entry with exactly one typed end has that end typed `T` -/
def Q (b : Builder) (T : Ty) : Prop :=
  ∀ s pe, pe ∈ getSlice b.toValidate s →
    (b.nodeOut s = none → b.nodeIn pe.dst = none ∨ b.nodeIn pe.dst = some T) ∧
    (b.nodeIn pe.dst = none → b.nodeOut s = none ∨ b.nodeOut s = some T)

/-- untyped ends of pending entries are nodes of the graph; no entry carries field mappings -/
def PN (b : Builder) : Prop :=
  ∀ s pe, pe ∈ getSlice b.toValidate s →
    (b.nodeIn pe.dst = none → b.hasNode pe.dst = true) ∧ (b.nodeOut s = none → b.hasNode s = true) ∧
    pe.mapped = none

/-- `b'` differs from `b` in types only by nodes newly typed `T` -/
structure StepT (b b' : Builder) (T : Ty) : Prop where
  mono : Mono b b'
  tin : ∀ x, b'.nodeIn x = b.nodeIn x ∨ b'.nodeIn x = some T
  tout : ∀ x, b'.nodeOut x = b.nodeOut x ∨ b'.nodeOut x = some T

theorem StepT.refl (b : Builder) (T : Ty) : StepT b b T :=
  ⟨Mono.refl b, fun _ => Or.inl rfl, fun _ => Or.inl rfl⟩

theorem StepT.trans {a b c : Builder} {T : Ty} (h1 : StepT a b T) (h2 : StepT b c T) : StepT a c T := by
  refine ⟨h1.mono.trans h2.mono, fun x => ?_, fun x => ?_⟩
  · rcases h2.tin x with e | e
    · rw [e]; exact h1.tin x
    · exact Or.inr e
  · rcases h2.tout x with e | e
    · rw [e]; exact h1.tout x
    · exact Or.inr e

theorem StepT.setTy (b : Builder) (k : Key) (T : Ty)
    (hi : b.nodeIn k = none ∨ b.nodeIn k = some T) (ho : b.nodeOut k = none ∨ b.nodeOut k = some T) :
    StepT b (b.setTy k T) T := by
  refine ⟨Mono.setTy b k T hi ho, fun x => ?_, fun x => ?_⟩
  · rcases (setTy_cases b k T x).1 with e | ⟨_, e⟩
    · exact Or.inl e
    · exact Or.inr e
  · rcases (setTy_cases b k T x).2 with e | ⟨_, e⟩
    · exact Or.inl e
    · exact Or.inr e

theorem Q.step {b b' : Builder} {T : Ty} (hq : Q b T) (hs : StepT b b' T)
    (htv : ∀ s pe, pe ∈ getSlice b'.toValidate s → pe ∈ getSlice b.toValidate s) : Q b' T := by
  intro s pe hpe
  have hq0 := hq s pe (htv s pe hpe)
  constructor
  · intro ho'
    have ho : b.nodeOut s = none := by
      rcases h : b.nodeOut s with _ | A
      · rfl
      · have := hs.mono.tout s A h; rw [ho'] at this; simp at this
    rcases hs.tin pe.dst with e | e
    · rw [e]; exact hq0.1 ho
    · exact Or.inr e
  · intro hi'
    have hi : b.nodeIn pe.dst = none := by
      rcases h : b.nodeIn pe.dst with _ | A
      · rfl
      · have := hs.mono.tin pe.dst A h; rw [hi'] at this; simp at this
    rcases hs.tout s with e | e
    · rw [e]; exact hq0.2 hi
    · exact Or.inr e

theorem PN.step {b b' : Builder} (hp : PN b) (hm : Mono b b') (hf : Frame b b')
    (htv : ∀ s pe, pe ∈ getSlice b'.toValidate s → pe ∈ getSlice b.toValidate s) : PN b' := by
  intro s pe hpe
  have h0 := hp s pe (htv s pe hpe)
  refine ⟨fun hi' => ?_, fun ho' => ?_, h0.2.2⟩
  · rw [hf.hasNode]; apply h0.1
    rcases h : b.nodeIn pe.dst with _ | A
    · rfl
    · have := hm.tin pe.dst A h; rw [hi'] at this; simp at this
  · rw [hf.hasNode]; apply h0.2.1
    rcases h : b.nodeOut s with _ | A
    · rfl
    · have := hm.tout s A h; rw [ho'] at this; simp at this

theorem checkAssignable_same (im : Impl) (T : Ty) : checkAssignable im (some T) (some T) = .must := by
  simp [checkAssignable]


/-! ### one pass over the slice of one start key -/

/-- the local `startNodeOutputType` is either current, or stale-`nil` while the start node has
    meanwhile been typed `T` (and then every remaining end is untyped or typed `T`) -/
def SOk (b : Builder) (s : Key) (sTy : Option Ty) (T : Ty) (entries : List PEdge) : Prop :=
  sTy = b.nodeOut s ∨
  (sTy = none ∧ s ≠ START ∧ s ≠ END ∧ b.nodeIn s = some T ∧ b.nodeOut s = some T ∧
     ∀ pe ∈ entries, b.nodeIn pe.dst = none ∨ b.nodeIn pe.dst = some T)

theorem SOk.tail {b : Builder} {s : Key} {sTy : Option Ty} {T : Ty} {pe : PEdge} {rest : List PEdge}
    (h : SOk b s sTy T (pe :: rest)) : SOk b s sTy T rest := by
  rcases h with h | ⟨h1, h2, h3, h4, h5, h6⟩
  · exact Or.inl h
  · exact Or.inr ⟨h1, h2, h3, h4, h5, fun x hx => h6 x (List.mem_cons_of_mem _ hx)⟩

theorem setTy_toValidate (b : Builder) (k : Key) (t : Ty) : (b.setTy k t).toValidate = b.toValidate := rfl

theorem SoundE.same {im : Impl} {b : Builder} {s e : Key} {T : Ty}
    (ho : b.nodeOut s = some T) (hi : b.nodeIn e = some T) : SoundE im b s e := by
  unfold SoundE; rw [ho, hi, checkAssignable_same]; trivial

/-- what the rest of a pass gives, composed with one step `b → b1` -/
private theorem compose_step {im : Impl} {T : Ty} {s : Key} {b b1 b' : Builder} {pe : PEdge}
    {rest k2 : List PEdge} {kept kept' : List PEdge}
    (h1 : StepT b b1 T) (f1 : Frame b b1) (t1 : b1.toValidate = b.toValidate)
    (hsound : SoundE im b1 s pe.dst)
    (hw' : WF b') (hst : StepT b1 b' T) (hfr : Frame b1 b') (htv : b'.toValidate = b1.toValidate)
    (hk : kept' = kept.reverse ++ k2) (hk2 : ∀ x ∈ k2, x ∈ rest)
    (hall : ∀ x ∈ rest, x ∈ k2 ∨ SoundE im b' s x.dst) :
    WF b' ∧ StepT b b' T ∧ Frame b b' ∧ b'.toValidate = b.toValidate ∧
      ∃ k2, kept' = kept.reverse ++ k2 ∧ (∀ x ∈ k2, x ∈ pe :: rest) ∧
        (∀ x ∈ pe :: rest, x ∈ k2 ∨ SoundE im b' s x.dst) := by
  refine ⟨hw', h1.trans hst, f1.trans hfr, htv.trans t1, k2, hk, fun x hx => List.mem_cons_of_mem _ (hk2 x hx), ?_⟩
  intro x hx
  rcases List.mem_cons.mp hx with e | e
  · subst e; exact Or.inr (hsound.mono hst.mono)
  · exact hall x e

theorem procEntries_spec (im : Impl) (T : Ty) (s : Key) (sTy : Option Ty) :
    ∀ (entries : List PEdge) (b : Builder) (kept : List PEdge) (ch : Bool),
      WF b → Q b T → PN b →
      (∀ pe ∈ entries, pe ∈ getSlice b.toValidate s) →
      SOk b s sTy T entries →
      ∀ b' kept' ch', procEntries im s sTy entries b kept ch = .ok (b', kept', ch') →
        WF b' ∧ StepT b b' T ∧ Frame b b' ∧ b'.toValidate = b.toValidate ∧
        ∃ k2, kept' = kept.reverse ++ k2 ∧ (∀ pe ∈ k2, pe ∈ entries) ∧
          (∀ pe ∈ entries, pe ∈ k2 ∨ SoundE im b' s pe.dst) := by
  intro entries
  induction entries with
  | nil =>
    intro b kept ch hw _ _ _ _ b' kept' ch' h
    simp only [procEntries, Except.ok.injEq, Prod.mk.injEq] at h
    obtain ⟨rfl, rfl, _⟩ := h
    exact ⟨hw, StepT.refl _ _, Frame.refl _, rfl, [], by simp, by simp, by simp⟩
  | cons pe rest ih =>
    intro b kept ch hw hq hp hsub hso b' kept' ch' h
    have hpe : pe ∈ getSlice b.toValidate s := hsub pe List.mem_cons_self
    have hsubr : ∀ x ∈ rest, x ∈ getSlice b.toValidate s := fun x hx => hsub x (List.mem_cons_of_mem _ hx)
    have hq0 := hq s pe hpe
    have hp0 := hp s pe hpe
    rcases hs : sTy with _ | st <;> rcases hd : b.nodeIn pe.dst with _ | et
    · -- (nil, nil): the entry stays
      subst hs
      simp only [procEntries, hd] at h
      obtain ⟨hw', hst, hfr, htv, k2, hk, hk2, hall⟩ := ih b (pe :: kept) ch hw hq hp hsubr hso.tail b' kept' ch' h
      refine ⟨hw', hst, hfr, htv, pe :: k2, by simp [hk], ?_, ?_⟩
      · intro x hx
        rcases List.mem_cons.mp hx with e | e
        · subst e; exact List.mem_cons_self
        · exact List.mem_cons_of_mem _ (hk2 x e)
      · intro x hx
        rcases List.mem_cons.mp hx with e | e
        · subst e; exact Or.inl List.mem_cons_self
        · rcases hall x e with h1 | h1
          · exact Or.inl (List.mem_cons_of_mem _ h1)
          · exact Or.inr h1
    · -- (nil, typed): the start node takes the end's type
      subst hs
      simp only [procEntries, hd] at h
      have hfacts : et = T ∧ (b.nodeIn s = none ∨ b.nodeIn s = some T) ∧ (b.nodeOut s = none ∨ b.nodeOut s = some T) ∧
          (∀ x ∈ rest, b.nodeIn x.dst = none ∨ b.nodeIn x.dst = some T) ∧ b.hasNode s = true ∧ s ≠ START ∧ s ≠ END := by
        rcases hso with h0 | ⟨_, hr1, hr2, h2, h3, h4⟩
        · have hon : b.nodeOut s = none := h0.symm
          have hin : b.nodeIn s = none := (hw.untyped_iff s).mpr hon
          have he : et = T := by
            rcases hq0.1 hon with e | e
            · rw [hd] at e; simp at e
            · rw [hd] at e; simpa using e
          have hne := nodeOut_none_ne b s hon
          exact ⟨he, Or.inl hin, Or.inl hon, fun x hx => (hq s x (hsubr x hx)).1 hon, hp0.2.1 hon, hne.1, hne.2⟩
        · have he : et = T := by
            rcases h4 pe List.mem_cons_self with e | e
            · rw [hd] at e; simp at e
            · rw [hd] at e; simpa using e
          exact ⟨he, Or.inr h2, Or.inr h3, fun x hx => h4 x (List.mem_cons_of_mem _ hx),
            hasNode_of_nodeIn h2 hr1 hr2, hr1, hr2⟩
      obtain ⟨he, hin, hon, hrest, hhas, hr1, hr2⟩ := hfacts
      subst he
      have hst1 : StepT b (b.setTy s et) et := StepT.setTy b s et hin hon
      have hi1 : (b.setTy s et).nodeIn s = some et := by rw [nodeIn_setTy_self b s et hr1 hr2, hhas]; rfl
      have ho1 : (b.setTy s et).nodeOut s = some et := by rw [nodeOut_setTy_self b s et hr1 hr2, hhas]; rfl
      have hso1 : SOk (b.setTy s et) s none et rest := by
        refine Or.inr ⟨rfl, hr1, hr2, hi1, ho1, fun x hx => ?_⟩
        rcases hst1.tin x.dst with e | e
        · rw [e]; exact hrest x hx
        · exact Or.inr e
      have htv1 : ∀ s' x, x ∈ getSlice (b.setTy s et).toValidate s' → x ∈ getSlice b.toValidate s' := fun _ _ hx => hx
      obtain ⟨hw', hst, hfr, htv, k2, hk, hk2, hall⟩ :=
        ih (b.setTy s et) kept true (hw.setTy s et) (hq.step hst1 htv1) (hp.step hst1.mono (Frame.setTy b s et) htv1)
          hsubr hso1 b' kept' ch' h
      exact compose_step hst1 (Frame.setTy b s et) rfl
        (SoundE.same ho1 (hst1.mono.tin _ _ hd)) hw' hst hfr htv hk hk2 hall
    · -- (typed, nil): the end node takes the start's type
      subst hs
      simp only [procEntries, hd] at h
      have hcur : b.nodeOut s = some st := by
        rcases hso with h0 | ⟨h0, _⟩
        · exact h0.symm
        · simp at h0
      have he : st = T := by
        rcases hq0.2 hd with e | e
        · rw [hcur] at e; simp at e
        · rw [hcur] at e; simpa using e
      subst he
      have hdo : b.nodeOut pe.dst = none := (hw.untyped_iff _).mp hd
      have hne := nodeIn_none_ne b pe.dst hd
      have hhas : b.hasNode pe.dst = true := hp0.1 hd
      have hsd : s ≠ pe.dst := by
        intro e; rw [← e] at hdo; rw [hdo] at hcur; simp at hcur
      have hst1 : StepT b (b.setTy pe.dst st) st := StepT.setTy b pe.dst st (Or.inl hd) (Or.inl hdo)
      have hi1 : (b.setTy pe.dst st).nodeIn pe.dst = some st := by
        rw [nodeIn_setTy_self b pe.dst st hne.1 hne.2, hhas]; rfl
      have ho1 : (b.setTy pe.dst st).nodeOut s = some st := by
        rw [nodeOut_setTy_ne b pe.dst s st hsd]; exact hcur
      have hso1 : SOk (b.setTy pe.dst st) s (some st) st rest := Or.inl ho1.symm
      have htv1 : ∀ s' x, x ∈ getSlice (b.setTy pe.dst st).toValidate s' → x ∈ getSlice b.toValidate s' := fun _ _ hx => hx
      obtain ⟨hw', hst, hfr, htv, k2, hk, hk2, hall⟩ :=
        ih (b.setTy pe.dst st) kept true (hw.setTy _ _) (hq.step hst1 htv1)
          (hp.step hst1.mono (Frame.setTy b _ _) htv1) hsubr hso1 b' kept' ch' h
      exact compose_step hst1 (Frame.setTy b _ _) rfl (SoundE.same ho1 hi1) hw' hst hfr htv hk hk2 hall
    · -- (typed, typed): the entry is checked
      subst hs
      have hcur : b.nodeOut s = some st := by
        rcases hso with h0 | ⟨h0, _⟩
        · exact h0.symm
        · simp at h0
      simp only [procEntries, hd, hp0.2.2] at h
      rcases hc : checkAssignable im (some st) (some et) with _ | _ | _
      · simp [hc] at h
      · -- must
        simp only [hc] at h
        have hsound : SoundE im b s pe.dst := by unfold SoundE; rw [hcur, hd, hc]; trivial
        obtain ⟨hw', hst, hfr, htv, k2, hk, hk2, hall⟩ :=
          ih b kept true hw hq hp hsubr hso.tail b' kept' ch' h
        exact compose_step (StepT.refl b T) (Frame.refl b) rfl hsound hw' hst hfr htv hk hk2 hall
      · -- may: the run-time check is installed
        simp only [hc] at h
        let b1 : Builder := { b with mayEdges := b.mayEdges ++ [(s, pe.dst)] }
        have hst1 : StepT b b1 T :=
          ⟨⟨fun _ _ hx => hx, fun _ _ hx => hx, fun x hx => List.mem_append_left _ hx⟩, fun _ => Or.inl rfl, fun _ => Or.inl rfl⟩
        have hsound : SoundE im b1 s pe.dst := by
          unfold SoundE
          show (match checkAssignable im (b.nodeOut s) (b.nodeIn pe.dst) with
            | .mustNot => False | .may => (s, pe.dst) ∈ b.mayEdges ++ [(s, pe.dst)] | .must => True)
          rw [hcur, hd, hc]; simp
        have hso1 : SOk b1 s (some st) T rest := Or.inl hcur.symm
        obtain ⟨hw', hst, hfr, htv, k2, hk, hk2, hall⟩ :=
          ih b1 kept true hw (hq.step hst1 (fun _ _ hx => hx)) (hp.step hst1.mono (Frame.refl b) (fun _ _ hx => hx))
            hsubr hso1 b' kept' ch' h
        exact compose_step hst1 (Frame.refl b) rfl hsound hw' hst hfr htv hk hk2 hall


/-! ### slices of the work list -/

theorem getSlice_setSlice_ne (tv : List (Key × List PEdge)) (s s' : Key) (nl : List PEdge) (h : s' ≠ s) :
    getSlice (setSlice tv s nl) s' = getSlice tv s' := by
  induction tv with
  | nil => rfl
  | cons p tv ih =>
    obtain ⟨k, l⟩ := p
    simp only [setSlice]
    by_cases hk : k = s
    · subst hk
      simp only [↓reduceIte, getSlice]
      have : ¬ k = s' := fun e => h e.symm
      simp [this]
    · simp only [hk, ↓reduceIte, getSlice]
      split
      · rfl
      · exact ih

theorem getSlice_setSlice_self (tv : List (Key × List PEdge)) (s : Key) (nl : List PEdge)
    (h : s ∈ tv.map (·.1)) : getSlice (setSlice tv s nl) s = nl := by
  induction tv with
  | nil => simp at h
  | cons p tv ih =>
    obtain ⟨k, l⟩ := p
    simp only [setSlice]
    by_cases hk : k = s
    · simp [hk, getSlice]
    · simp only [hk, ↓reduceIte, getSlice]
      have : s ∈ tv.map (·.1) := by
        simp only [List.map_cons, List.mem_cons] at h
        rcases h with e | e
        · exact absurd e.symm hk
        · exact e
      exact ih this

theorem mem_getSlice_key {tv : List (Key × List PEdge)} {s : Key} {x : PEdge} (h : x ∈ getSlice tv s) :
    s ∈ tv.map (·.1) := by
  induction tv with
  | nil => simp [getSlice] at h
  | cons p tv ih =>
    obtain ⟨k, l⟩ := p
    simp only [getSlice] at h
    by_cases hk : k = s
    · simp [hk]
    · simp only [hk, ↓reduceIte] at h
      simp only [List.map_cons, List.mem_cons]
      exact Or.inr (ih h)

theorem getSlice_setSlice_sub (tv : List (Key × List PEdge)) (s : Key) (nl : List PEdge) (x : PEdge)
    (h : x ∈ getSlice (setSlice tv s nl) s) : x ∈ nl := by
  have hk : s ∈ (setSlice tv s nl).map (·.1) := mem_getSlice_key h
  have hk' : s ∈ tv.map (·.1) := by
    have : (setSlice tv s nl).map (·.1) = tv.map (·.1) := by
      clear h hk
      induction tv with
      | nil => rfl
      | cons p tv ih =>
        obtain ⟨k, l⟩ := p
        simp only [setSlice]
        split
        · simp
        · simp [ih]
    rwa [this] at hk
  rwa [getSlice_setSlice_self tv s nl hk'] at h

theorem setSlice_same (tv : List (Key × List PEdge)) (s : Key) : setSlice tv s (getSlice tv s) = tv := by
  induction tv with
  | nil => rfl
  | cons p tv ih =>
    obtain ⟨k, l⟩ := p
    simp only [setSlice, getSlice]
    by_cases hk : k = s
    · simp [hk]
    · simp [hk, ih]

theorem pendingCount_setSlice_le (tv : List (Key × List PEdge)) (s : Key) (nl : List PEdge)
    (h : nl.length ≤ (getSlice tv s).length) :
    pendingCount (setSlice tv s nl) ≤ pendingCount tv ∧
    (nl.length < (getSlice tv s).length → pendingCount (setSlice tv s nl) < pendingCount tv) := by
  induction tv with
  | nil => simp [setSlice, getSlice] at h ⊢
  | cons p tv ih =>
    obtain ⟨k, l⟩ := p
    simp only [setSlice, getSlice] at h ⊢
    by_cases hk : k = s
    · simp only [hk, ↓reduceIte] at h ⊢
      simp only [pendingCount, List.map_cons, List.sum_cons]
      omega
    · simp only [hk, ↓reduceIte] at h ⊢
      have := ih h
      simp only [pendingCount, List.map_cons, List.sum_cons] at this ⊢
      omega


/-! ### one round, the whole loop: what is preserved -/

/-- relation between the state before and after (part of) `updateToValidateMap` -/
structure Upd (im : Impl) (b b' : Builder) (T : Ty) : Prop where
  wf : WF b'
  step : StepT b b' T
  frame : Frame b b'
  shrink : ∀ s pe, pe ∈ getSlice b'.toValidate s → pe ∈ getSlice b.toValidate s
  resolved : ∀ s pe, pe ∈ getSlice b.toValidate s → pe ∈ getSlice b'.toValidate s ∨ SoundE im b' s pe.dst

theorem Upd.refl (im : Impl) {b : Builder} (hw : WF b) (T : Ty) : Upd im b b T :=
  ⟨hw, StepT.refl _ _, Frame.refl _, fun _ _ h => h, fun _ _ h => Or.inl h⟩

theorem Upd.trans {im : Impl} {a b c : Builder} {T : Ty} (h1 : Upd im a b T) (h2 : Upd im b c T) : Upd im a c T := by
  refine ⟨h2.wf, h1.step.trans h2.step, h1.frame.trans h2.frame,
    fun s pe h => h1.shrink s pe (h2.shrink s pe h), fun s pe h => ?_⟩
  rcases h1.resolved s pe h with e | e
  · exact h2.resolved s pe e
  · exact Or.inr (e.mono h2.step.mono)

theorem Upd.q {im : Impl} {b b' : Builder} {T : Ty} (h : Upd im b b' T) (hq : Q b T) : Q b' T :=
  hq.step h.step h.shrink

theorem Upd.pn {im : Impl} {b b' : Builder} {T : Ty} (h : Upd im b b' T) (hp : PN b) : PN b' :=
  hp.step h.step.mono h.frame h.shrink

theorem updRound_spec (im : Impl) (T : Ty) :
    ∀ (ks : List Key) (b : Builder) (ch : Bool), WF b → Q b T → PN b →
      ∀ b' ch', updRound im ks b ch = .ok (b', ch') → Upd im b b' T := by
  intro ks
  induction ks with
  | nil =>
    intro b ch hw _ _ b' ch' h
    simp only [updRound, Except.ok.injEq, Prod.mk.injEq] at h
    obtain ⟨rfl, _⟩ := h
    exact Upd.refl im hw T
  | cons s ks ih =>
    intro b ch hw hq hp b' ch' h
    simp only [updRound] at h
    rcases hpr : procEntries im s (b.nodeOut s) (getSlice b.toValidate s) b [] false with k | ⟨b1, kept, ch1⟩
    · simp [hpr] at h
    · simp only [hpr] at h
      obtain ⟨hw1, hst1, hfr1, htv1, k2, hk, hk2, hall⟩ :=
        procEntries_spec im T s (b.nodeOut s) (getSlice b.toValidate s) b [] false hw hq hp
          (fun _ hx => hx) (Or.inl rfl) b1 kept ch1 hpr
      simp only [List.reverse_nil, List.nil_append] at hk
      subst hk
      -- the state after writing the slice back
      let b2 : Builder := { b1 with toValidate := setSlice b1.toValidate s kept }
      have hu12 : Upd im b b2 T := by
        refine ⟨hw1, ⟨⟨hst1.mono.tin, hst1.mono.tout, hst1.mono.may⟩, hst1.tin, hst1.tout⟩, hfr1, ?_, ?_⟩
        · intro s' pe hpe
          by_cases hs' : s' = s
          · subst hs'
            exact hk2 pe (getSlice_setSlice_sub _ _ _ _ hpe)
          · have : pe ∈ getSlice b1.toValidate s' := by
              rwa [show b2.toValidate = setSlice b1.toValidate s kept from rfl, getSlice_setSlice_ne _ _ _ _ hs'] at hpe
            rwa [htv1] at this
        · intro s' pe hpe
          by_cases hs' : s' = s
          · subst hs'
            rcases hall pe hpe with e | e
            · left
              have hkey : s' ∈ b1.toValidate.map (·.1) := by rw [htv1]; exact mem_getSlice_key hpe
              rw [show b2.toValidate = setSlice b1.toValidate s' kept from rfl, getSlice_setSlice_self _ _ _ hkey]
              exact e
            · right; exact e
          · left
            rw [show b2.toValidate = setSlice b1.toValidate s kept from rfl, getSlice_setSlice_ne _ _ _ _ hs', htv1]
            exact hpe
      have hu2 := ih b2 (ch || ch1) hu12.wf (hu12.q hq) (hu12.pn hp) b' ch' h
      exact hu12.trans hu2

theorem updLoop_spec (im : Impl) (ord : Ord) (T : Ty) :
    ∀ (fuel : Nat) (b : Builder), WF b → Q b T → PN b →
      ∀ b', updLoop im ord fuel b = .ok b' → Upd im b b' T := by
  intro fuel
  induction fuel with
  | zero =>
    intro b hw _ _ b' h
    simp only [updLoop, Except.ok.injEq] at h
    subst h; exact Upd.refl im hw T
  | succ n ih =>
    intro b hw hq hp b' h
    simp only [updLoop] at h
    rcases hr : updRound im (ord.keys b (b.toValidate.map (·.1))) b false with k | ⟨b1, ch⟩
    · simp [hr] at h
    · simp only [hr] at h
      have hu1 := updRound_spec im T _ b false hw hq hp b1 ch hr
      split at h
      · exact hu1.trans (ih b1 hu1.wf (hu1.q hq) (hu1.pn hp) b' h)
      · simp only [Except.ok.injEq] at h; subst h; exact hu1


/-! ### the loop reaches its fixpoint: afterwards every pending entry joins two untyped nodes -/

/-- facts about one pass that do not need the invariants: the change flag is monotone, the
    slice never grows, it shrinks when the flag is raised, and without a change nothing moved
    and every entry was seen with both types unknown -/
theorem procEntries_shape (im : Impl) (s : Key) (sTy : Option Ty) :
    ∀ (entries : List PEdge) (b : Builder) (kept : List PEdge) (ch : Bool) b' kept' ch',
      procEntries im s sTy entries b kept ch = .ok (b', kept', ch') →
      (ch = true → ch' = true) ∧
      kept'.length ≤ kept.length + entries.length ∧
      (ch = false → ch' = true → kept'.length < kept.length + entries.length) ∧
      (ch' = false → b' = b ∧ kept' = kept.reverse ++ entries ∧
         ∀ pe ∈ entries, sTy = none ∧ b.nodeIn pe.dst = none) := by
  intro entries
  induction entries with
  | nil =>
    intro b kept ch b' kept' ch' h
    simp only [procEntries, Except.ok.injEq, Prod.mk.injEq] at h
    obtain ⟨rfl, rfl, rfl⟩ := h
    simp
  | cons pe rest ih =>
    intro b kept ch b' kept' ch' h
    -- every branch other than (nil, nil) continues with the flag raised
    have raised : ∀ (b1 : Builder), procEntries im s sTy rest b1 kept true = .ok (b', kept', ch') →
        (ch = true → ch' = true) ∧ kept'.length ≤ kept.length + (pe :: rest).length ∧
        (ch = false → ch' = true → kept'.length < kept.length + (pe :: rest).length) ∧
        (ch' = false → b' = b ∧ kept' = kept.reverse ++ pe :: rest ∧
           ∀ x ∈ pe :: rest, sTy = none ∧ b.nodeIn x.dst = none) := by
      intro b1 h1
      have := ih b1 kept true b' kept' ch' h1
      have ht : ch' = true := this.1 rfl
      refine ⟨fun _ => ht, ?_, ?_, ?_⟩
      · simp only [List.length_cons]; omega
      · intro _ _; simp only [List.length_cons]; omega
      · intro hf; rw [ht] at hf; simp at hf
    rcases hs : sTy with _ | st <;> rcases hd : b.nodeIn pe.dst with _ | et
    · subst hs
      simp only [procEntries, hd] at h
      have := ih b (pe :: kept) ch b' kept' ch' h
      refine ⟨this.1, ?_, ?_, ?_⟩
      · have := this.2.1; simp only [List.length_cons] at this ⊢; omega
      · intro h1 h2; have := this.2.2.1 h1 h2; simp only [List.length_cons] at this ⊢; omega
      · intro hf
        obtain ⟨e1, e2, e3⟩ := this.2.2.2 hf
        refine ⟨e1, by simp [e2], ?_⟩
        intro x hx
        rcases List.mem_cons.mp hx with e | e
        · subst e; exact ⟨rfl, hd⟩
        · exact e3 x e
    · subst hs
      simp only [procEntries, hd] at h
      exact raised _ h
    · subst hs
      simp only [procEntries, hd] at h
      exact raised _ h
    · subst hs
      simp only [procEntries, hd] at h
      rcases hm : pe.mapped with _ | t
      · simp only [hm] at h
        rcases hc : checkAssignable im (some st) (some et) with _ | _ | _
        · simp [hc] at h
        · simp only [hc] at h; exact raised _ h
        · simp only [hc] at h; exact raised _ h
      · simp only [hm] at h
        exact raised _ h

theorem updRound_shape (im : Impl) :
    ∀ (ks : List Key) (b : Builder) (ch : Bool) b' ch', updRound im ks b ch = .ok (b', ch') →
      (ch = true → ch' = true) ∧
      pendingCount b'.toValidate ≤ pendingCount b.toValidate ∧
      (ch = false → ch' = true → pendingCount b'.toValidate < pendingCount b.toValidate) ∧
      (ch' = false → b' = b ∧ ∀ s ∈ ks, ∀ pe ∈ getSlice b.toValidate s, b.nodeOut s = none ∧ b.nodeIn pe.dst = none) := by
  intro ks
  induction ks with
  | nil =>
    intro b ch b' ch' h
    simp only [updRound, Except.ok.injEq, Prod.mk.injEq] at h
    obtain ⟨rfl, rfl⟩ := h
    simp
  | cons s ks ih =>
    intro b ch b' ch' h
    simp only [updRound] at h
    rcases hpr : procEntries im s (b.nodeOut s) (getSlice b.toValidate s) b [] false with k | ⟨b1, kept, ch1⟩
    · simp [hpr] at h
    · simp only [hpr] at h
      have hp := procEntries_shape im s (b.nodeOut s) (getSlice b.toValidate s) b [] false b1 kept ch1 hpr
      have htv1 : b1.toValidate = b.toValidate := by
        -- procEntries never writes the work list
        clear h hp
        have : ∀ (entries : List PEdge) (b : Builder) (kept : List PEdge) (ch : Bool) b' kept' ch' (sTy : Option Ty),
            procEntries im s sTy entries b kept ch = .ok (b', kept', ch') → b'.toValidate = b.toValidate := by
          intro entries
          induction entries with
          | nil =>
            intro b kept ch b' kept' ch' sTy h
            simp only [procEntries, Except.ok.injEq, Prod.mk.injEq] at h
            rw [← h.1]
          | cons pe rest ih2 =>
            intro b kept ch b' kept' ch' sTy h
            simp only [procEntries] at h
            repeat' split at h
            all_goals first | (simp at h; done) | (have := ih2 _ _ _ _ _ _ _ h; simpa [Builder.setTy] using this)
        exact this _ _ _ _ _ _ _ _ hpr
      have ih2 := ih _ (ch || ch1) b' ch' h
      have hlen : kept.length ≤ (getSlice b1.toValidate s).length := by
        have := hp.2.1; simp only [List.length_nil, Nat.zero_add] at this; rw [htv1]; exact this
      have hcnt := pendingCount_setSlice_le b1.toValidate s kept hlen
      have hA : pendingCount (setSlice b1.toValidate s kept) ≤ pendingCount b.toValidate := by
        have := hcnt.1; rw [htv1] at this ⊢; exact this
      have hA' : ch1 = true → pendingCount (setSlice b1.toValidate s kept) < pendingCount b.toValidate := by
        intro hch1
        have h3 : kept.length < (getSlice b1.toValidate s).length := by
          have := hp.2.2.1 rfl hch1; simp only [List.length_nil, Nat.zero_add] at this; rw [htv1]; exact this
        have := hcnt.2 h3; rw [htv1] at this ⊢; exact this
      have hB : pendingCount b'.toValidate ≤ pendingCount (setSlice b1.toValidate s kept) := ih2.2.1
      refine ⟨?_, ?_, ?_, ?_⟩
      · intro hc; exact ih2.1 (by simp [hc])
      · omega
      · intro hc hc'
        cases hch1 : ch1
        · have hC : pendingCount b'.toValidate < pendingCount (setSlice b1.toValidate s kept) :=
            ih2.2.2.1 (by simp [hc, hch1]) hc'
          omega
        · have := hA' hch1
          omega
      · intro hf
        have hch1 : ch1 = false := by
          cases hch1 : ch1
          · rfl
          · have := ih2.1 (by simp [hch1]); rw [hf] at this; simp at this
        obtain ⟨e1, e2, e3⟩ := hp.2.2.2 hch1
        simp only [List.reverse_nil, List.nil_append] at e2
        subst e1
        have hb2 : ({ b1 with toValidate := setSlice b1.toValidate s kept } : Builder) = b1 := by
          rw [e2, setSlice_same]
        rw [hb2] at ih2
        obtain ⟨f1, f2⟩ := ih2.2.2.2 hf
        refine ⟨f1, ?_⟩
        intro s' hs' pe hpe
        rcases List.mem_cons.mp hs' with e | e
        · subst e
          have := e3 pe hpe
          exact ⟨this.1.symm ▸ rfl, this.2⟩
        · exact f2 s' e pe hpe


/-- between calls: every pending entry joins two nodes whose types are both still unknown -/
def I2 (b : Builder) : Prop :=
  ∀ s pe, pe ∈ getSlice b.toValidate s → b.nodeOut s = none ∧ b.nodeIn pe.dst = none

theorem updLoop_fix (im : Impl) (ord : Ord) (hv : ord.Valid) :
    ∀ (fuel : Nat) (b b' : Builder), pendingCount b.toValidate < fuel →
      updLoop im ord fuel b = .ok b' → I2 b' := by
  intro fuel
  induction fuel with
  | zero => intro b b' h; omega
  | succ n ih =>
    intro b b' hlt h
    simp only [updLoop] at h
    rcases hr : updRound im (ord.keys b (b.toValidate.map (·.1))) b false with k | ⟨b1, ch⟩
    · simp [hr] at h
    · simp only [hr] at h
      have hs := updRound_shape im _ b false b1 ch hr
      cases hch : ch
      · simp only [hch, Bool.false_eq_true, ↓reduceIte, Except.ok.injEq] at h
        subst h
        obtain ⟨e1, e2⟩ := hs.2.2.2 hch
        subst e1
        intro s pe hpe
        have hk : s ∈ b1.toValidate.map (·.1) := mem_getSlice_key hpe
        have : s ∈ ord.keys b1 (b1.toValidate.map (·.1)) := ((hv.keys b1 _).mem_iff).mpr hk
        exact e2 s this pe hpe
      · simp only [hch, ↓reduceIte] at h
        have := hs.2.2.1 rfl hch
        exact ih b1 b' (by omega) h

/-- **the contract of `updateToValidateMap`**, for every iteration order: started from a
    well-formed state in which every half-typed pending entry has its typed end typed `T`, it
    keeps all known types, resolves entries only soundly, and ends with all remaining entries
    joining untyped nodes. -/
theorem update_spec (im : Impl) (ord : Ord) (hv : ord.Valid) (T : Ty) (b b' : Builder)
    (hw : WF b) (hq : Q b T) (hp : PN b) (h : update im ord b = .ok b') :
    Upd im b b' T ∧ I2 b' ∧ PN b' :=
  have hu := updLoop_spec im ord T _ b hw hq hp b' h
  ⟨hu, updLoop_fix im ord hv _ b b' (Nat.lt_succ_self _) h, hu.pn hp⟩


/-! ### the invariant between calls -/

theorem getSlice_addPending (tv : List (Key × List PEdge)) (s s' : Key) (pe : PEdge) :
    getSlice (addPending tv s pe) s' = if s' = s then getSlice tv s ++ [pe] else getSlice tv s' := by
  induction tv with
  | nil =>
    simp only [addPending, getSlice]
    by_cases h : s' = s
    · simp [h]
    · have : ¬ s = s' := fun e => h e.symm
      simp [h, this]
  | cons p tv ih =>
    obtain ⟨k, l⟩ := p
    simp only [addPending]
    by_cases hk : k = s
    · subst hk
      simp only [↓reduceIte, getSlice]
      by_cases h : s' = k
      · simp [h]
      · have : ¬ k = s' := fun e => h e.symm
        simp [h, this]
    · simp only [hk, ↓reduceIte, getSlice]
      by_cases h2 : k = s'
      · subst h2; simp [hk]
      · simp only [h2, ↓reduceIte]; exact ih

/-- a data connection of the graph under construction: an edge, or a branch start with one of
    the branch's end nodes -/
def Conn (b : Builder) (s e : Key) : Prop :=
  (s, e) ∈ b.dataEdges ∨ ∃ br ∈ b.branches, br.src = s ∧ e ∈ br.ends ∧ br.noData = false

def Pending (b : Builder) (s e : Key) : Prop := ∃ pe ∈ getSlice b.toValidate s, pe.dst = e

/-- `X`: connections whose edge / branch record is not stored yet (the call is still running) -/
structure InvC (im : Impl) (b : Builder) (X : List (Key × Key)) : Prop where
  wf : WF b
  i2 : I2 b
  pn : PN b
  conn : ∀ s e, (Conn b s e ∨ (s, e) ∈ X) → Pending b s e ∨ SoundE im b s e

theorem I2.q {b : Builder} (h : I2 b) (T : Ty) : Q b T := by
  intro s pe hpe
  have := h s pe hpe
  exact ⟨fun _ => Or.inl this.2, fun _ => Or.inl this.1⟩

theorem Frame.dataEdges {b b' : Builder} (h : Frame b b') : b'.dataEdges = b.dataEdges := by
  simp only [Frame, Builder.frame, Prod.mk.injEq] at h; exact h.2.2.2.2.2.1
theorem Frame.branches {b b' : Builder} (h : Frame b b') : b'.branches = b.branches := by
  simp only [Frame, Builder.frame, Prod.mk.injEq] at h; exact h.2.2.2.2.2.2.1
theorem Frame.preBranch {b b' : Builder} (h : Frame b b') : b'.preBranch = b.preBranch := by
  simp only [Frame, Builder.frame, Prod.mk.injEq] at h; exact h.2.2.2.2.2.2.2.2.2.2.2.1
theorem Frame.io {b b' : Builder} (h : Frame b b') : b'.inT = b.inT ∧ b'.outT = b.outT := by
  simp only [Frame, Builder.frame, Prod.mk.injEq] at h; exact ⟨h.2.1, h.2.2.1⟩

theorem Frame.conn {b b' : Builder} (h : Frame b b') (s e : Key) : Conn b' s e ↔ Conn b s e := by
  unfold Conn; rw [h.dataEdges, h.branches]

/-- adding one pending data connection `s → e` and running the work list -/
theorem data_step (im : Impl) (ord : Ord) (hv : ord.Valid) (b b2 : Builder) (X : List (Key × Key)) (s e : Key)
    (hi : InvC im b X)
    (hs : b.hasNode s = true ∨ b.nodeOut s ≠ none) (he : b.hasNode e = true ∨ b.nodeIn e ≠ none)
    (h : update im ord (b.addToValidate s { dst := e, mapped := none }) = .ok b2) :
    InvC im b2 ((s, e) :: X) ∧ Frame b b2 ∧ Mono b b2 := by
  let pe : PEdge := { dst := e, mapped := none }
  let b1 := b.addToValidate s pe
  let T : Ty := match b.nodeOut s, b.nodeIn e with
    | none, some B => B
    | some A, none => A
    | _, _ => Ty.any
  have hsl : ∀ s' x, x ∈ getSlice b1.toValidate s' ↔ (x ∈ getSlice b.toValidate s' ∨ (s' = s ∧ x = pe)) := by
    intro s' x
    show x ∈ getSlice (addPending b.toValidate s pe) s' ↔ _
    rw [getSlice_addPending]
    by_cases hs' : s' = s
    · subst hs'; simp
    · simp [hs']
  have hw1 : WF b1 := hi.wf
  have hq1 : Q b1 T := by
    intro s' x hx
    rcases (hsl s' x).mp hx with hx | ⟨rfl, rfl⟩
    · exact hi.i2.q T s' x hx
    · show (b.nodeOut s' = none → b.nodeIn e = none ∨ b.nodeIn e = some T) ∧
           (b.nodeIn e = none → b.nodeOut s' = none ∨ b.nodeOut s' = some T)
      rcases ho : b.nodeOut s' with _ | A <;> rcases hin : b.nodeIn e with _ | B <;> simp [T, ho, hin]
  have hp1 : PN b1 := by
    intro s' x hx
    rcases (hsl s' x).mp hx with hx | ⟨rfl, rfl⟩
    · exact hi.pn s' x hx
    · refine ⟨fun hn => ?_, fun hn => ?_, rfl⟩
      · rcases he with he | he
        · exact he
        · exact absurd hn he
      · rcases hs with hs | hs
        · exact hs
        · exact absurd hn hs
  obtain ⟨hu, hi2, hpn⟩ := update_spec im ord hv T b1 b2 hw1 hq1 hp1 h
  refine ⟨⟨hu.wf, hi2, hpn, ?_⟩, hu.frame, ⟨hu.step.mono.tin, hu.step.mono.tout, hu.step.mono.may⟩⟩
  intro s' e' hc
  have hres : ∀ x, x ∈ getSlice b1.toValidate s' → x.dst = e' → Pending b2 s' e' ∨ SoundE im b2 s' e' := by
    intro x hx hd
    rcases hu.resolved s' x hx with r | r
    · exact Or.inl ⟨x, r, hd⟩
    · exact Or.inr (hd ▸ r)
  have old : (Conn b s' e' ∨ (s', e') ∈ X) → Pending b2 s' e' ∨ SoundE im b2 s' e' := by
    intro hc
    rcases hi.conn s' e' hc with ⟨x, hx, hd⟩ | hsnd
    · exact hres x ((hsl s' x).mpr (Or.inl hx)) hd
    · exact Or.inr (SoundE.mono (b := b1) hu.step.mono hsnd)
  rcases hc with hc | hc
  · exact old (Or.inl ((hu.frame.conn s' e').mp hc))
  · rcases List.mem_cons.mp hc with e1 | e1
    · simp only [Prod.mk.injEq] at e1
      obtain ⟨rfl, rfl⟩ := e1
      exact hres pe ((hsl s' pe).mpr (Or.inr ⟨rfl, rfl⟩)) rfl
    · exact old (Or.inr e1)


/-! ### every call of the public Graph API preserves the invariant -/

/-- the branch condition of `br` can take what its start node produces: for sure, or possibly
    with the run-time check installed (`flag`) -/
def SoundBr (im : Impl) (b : Builder) (br : BranchRec) (flag : Bool) : Prop :=
  match checkAssignable im (b.nodeOut br.src) (some br.inTy) with
  | .mustNot => False
  | .may => flag = true
  | .must => True

theorem SoundBr.mono {im : Impl} {b b' : Builder} {br : BranchRec} {flag : Bool} (hm : Mono b b')
    (h : SoundBr im b br flag) : SoundBr im b' br flag := by
  unfold SoundBr at h ⊢
  rcases ho : b.nodeOut br.src with _ | A
  · simp [ho, checkAssignable] at h
  · rw [ho] at h; rw [hm.tout _ A ho]; exact h

structure Inv (im : Impl) (b : Builder) : Prop where
  c : InvC im b []
  brLen : b.branches.length = b.preBranch.length
  br : ∀ p ∈ b.branches.zip (b.preBranch.map (·.2)), SoundBr im b p.1 p.2

/-- calls the public `Graph` type can make: AddEdge has no mappings / noControl / noData,
    AddBranch is not `skipData` -/
def Op.isGraphApi : Op → Bool
  | .node _ => true
  | .edge _ _ nc nd m => !nc && !nd && m.isNone
  | .branch _ _ _ sk => !sk
  | .compile _ => true

theorem findNode_append_ne (ns : List Node) (m : Node) (k : Key) (h : m.key ≠ k) :
    findNode (ns ++ [m]) k = findNode ns k := by
  induction ns with
  | nil => simp [findNode, h]
  | cons n ns ih =>
    simp only [List.cons_append, findNode]
    split
    · rfl
    · exact ih

theorem findNode_append_some (ns : List Node) (m : Node) (k : Key) (n : Node) (h : findNode ns k = some n) :
    findNode (ns ++ [m]) k = some n := by
  induction ns with
  | nil => simp [findNode] at h
  | cons x ns ih =>
    simp only [List.cons_append, findNode] at h ⊢
    split
    · rename_i hk; simp only [hk, ↓reduceIte] at h; exact h
    · rename_i hk; simp only [hk, ↓reduceIte] at h; exact ih h

theorem guarded_preserves {P : Builder → Prop} (g : Guards) (b : Builder) (body : Except ErrKind Builder)
    (hP : P b) (hPe : ∀ k, P { b with buildError := some k }) (hbody : ∀ b', body = .ok b' → P b') :
    P (guarded g b body).1 := by
  unfold guarded
  split
  · exact hP
  · split
    · exact hP
    · cases body with
      | ok b' => exact hbody b' rfl
      | error k =>
        simp only
        split
        · exact hPe k
        · exact hP

theorem Inv.setErr {im : Impl} {b : Builder} (h : Inv im b) (k : ErrKind) : Inv im { b with buildError := some k } :=
  ⟨⟨h.c.wf, h.c.i2, h.c.pn, h.c.conn⟩, h.brLen, h.br⟩

theorem addNode_inv (f : Facts) (im : Impl) (b : Builder) (n : NodeSpec) (h : Inv im b) :
    Inv im (addNode f b n).1 := by
  unfold addNode
  apply guarded_preserves (P := Inv im) _ _ _ h (fun k => h.setErr k)
  intro b' hb
  rcases hck : addNodeCheck b n with _ | k
  · simp only [hck, Except.ok.injEq] at hb
    subst hb
    -- the key is new and not reserved
    have hkey : n.key ≠ START ∧ n.key ≠ END ∧ b.hasNode n.key = false := by
      unfold addNodeCheck at hck
      by_cases h1 : (n.key = END || n.key = START) = true
      · simp [h1] at hck
      · simp only [h1] at hck
        by_cases h2 : b.hasNode n.key = true
        · simp [h2] at hck
        · simp only [Bool.or_eq_true, decide_eq_true_eq, not_or] at h1
          exact ⟨h1.2, h1.1, by simpa using h2⟩
    obtain ⟨hk1, hk2, hk3⟩ := hkey
    have hnk : (n.node).key = n.key := by unfold NodeSpec.node; split <;> rfl
    let b' : Builder := { b with nodes := b.nodes ++ [n.node] }
    have hfn : findNode b.nodes n.key = none := by
      unfold Builder.hasNode at hk3
      rcases hf : findNode b.nodes n.key with _ | x
      · rfl
      · simp [hf] at hk3
    have hin : ∀ k, k ≠ n.key → b'.nodeIn k = b.nodeIn k := by
      intro k hk
      show (if k = START then some b.inT else if k = END then some b.outT else
        match findNode (b.nodes ++ [n.node]) k with | some x => x.inTy | none => none) = b.nodeIn k
      rw [findNode_append_ne _ _ _ (by rw [hnk]; exact fun e => hk e.symm)]; rfl
    have hout : ∀ k, k ≠ n.key → b'.nodeOut k = b.nodeOut k := by
      intro k hk
      show (if k = START then some b.inT else if k = END then some b.outT else
        match findNode (b.nodes ++ [n.node]) k with | some x => x.outTy | none => none) = b.nodeOut k
      rw [findNode_append_ne _ _ _ (by rw [hnk]; exact fun e => hk e.symm)]; rfl
    have hnone_in : b.nodeIn n.key = none := by simp [Builder.nodeIn, hk1, hk2, hfn]
    have hnone_out : b.nodeOut n.key = none := by simp [Builder.nodeOut, hk1, hk2, hfn]
    have hmono : Mono b b' := by
      refine ⟨fun k t hk => ?_, fun k t hk => ?_, fun _ hx => hx⟩
      · rw [hin k (fun e => by rw [e, hnone_in] at hk; simp at hk)]; exact hk
      · rw [hout k (fun e => by rw [e, hnone_out] at hk; simp at hk)]; exact hk
    have hhas : ∀ k, b.hasNode k = true → b'.hasNode k = true := by
      intro k hk
      unfold Builder.hasNode at hk ⊢
      rcases hf : findNode b.nodes k with _ | x
      · simp [hf] at hk
      · show (findNode (b.nodes ++ [n.node]) k).isSome = true
        rw [findNode_append_some _ _ _ _ hf]; rfl
    have hne_of_has : ∀ k, b.hasNode k = true → k ≠ n.key := fun k hk e => by rw [e, hk3] at hk; simp at hk
    refine ⟨⟨?_, ?_, ?_, ?_⟩, h.brLen, fun p hp => (h.br p hp).mono hmono⟩
    · intro x hx
      rcases List.mem_append.mp hx with hx | hx
      · exact h.c.wf x hx
      · simp only [List.mem_singleton] at hx
        subst hx
        unfold NodeSpec.node
        split
        · exact ⟨fun _ => rfl, fun hp => by simp at hp⟩
        · exact ⟨fun hp => by simp at hp, fun _ => ⟨rfl, rfl⟩⟩
    · intro s pe hpe
      have h2 := h.c.i2 s pe hpe
      have h3 := h.c.pn s pe hpe
      exact ⟨by rw [hout s (hne_of_has s (h3.2.1 h2.1))]; exact h2.1,
             by rw [hin pe.dst (hne_of_has _ (h3.1 h2.2))]; exact h2.2⟩
    · intro s pe hpe
      have h2 := h.c.i2 s pe hpe
      have h3 := h.c.pn s pe hpe
      exact ⟨fun _ => hhas _ (h3.1 h2.2), fun _ => hhas _ (h3.2.1 h2.1), h3.2.2⟩
    · intro s e hc
      rcases hc with hc | hc
      · rcases h.c.conn s e (Or.inl hc) with hpd | hsd
        · exact Or.inl hpd
        · exact Or.inr (hsd.mono hmono)
      · simp at hc
  · simp [hck] at hb


theorem compile_inv (f : Facts) (im : Impl) (ord : Ord) (b : Builder) (o : COpts) (h : Inv im b) :
    Inv im (compile f ord b o).1 := by
  have hm : Inv im (mutatePre f b) := by
    unfold mutatePre
    split
    · exact ⟨⟨h.c.wf, h.c.i2, h.c.pn, h.c.conn⟩, h.brLen, h.br⟩
    · exact h
  have hc : Inv im (mutatePre f b).setCompiled :=
    ⟨⟨hm.c.wf, hm.c.i2, hm.c.pn, hm.c.conn⟩, hm.brLen, hm.br⟩
  unfold compile
  split
  · exact h
  · split
    · exact h
    · split
      · exact hm
      · exact hc

theorem addEdge_inv (f : Facts) (im : Impl) (ord : Ord) (hv : ord.Valid) (b : Builder) (s e : Key)
    (h : Inv im b) : Inv im (addEdge f im ord b s e false false none).1 := by
  unfold addEdge
  split
  · exact h
  · split
    · exact h
    · simp only [Bool.and_self, Bool.false_eq_true, ↓reduceIte]
      apply guarded_preserves (P := Inv im) _ _ _ h (fun k => h.setErr k)
      intro b' hb
      unfold addEdgeBody at hb
      simp only [Bool.false_eq_true, ↓reduceIte] at hb
      split at hb
      · simp at hb
      · split at hb
        · simp at hb
        · split at hb
          · simp at hb
          · split at hb
            · simp at hb
            · rename_i hs1 he1 hs2 he2
              split at hb
              · simp at hb
              · rename_i b1 hb1
                split at hb1
                · simp at hb1
                · simp only [Except.ok.injEq] at hb1
                  split at hb
                  · simp at hb
                  · split at hb
                    · simp at hb
                    · rename_i b2 hupd
                      simp only [Except.ok.injEq] at hb
                      subst hb
                      subst hb1
                      -- b1 differs from b in control edges / start / end lists only
                      have hc1 : InvC im
                          ({ b with controlEdges := b.controlEdges ++ [(s, e)],
                                    startNodes := if s = START then b.startNodes ++ [e] else b.startNodes,
                                    endNodes := if e = END then b.endNodes ++ [s] else b.endNodes } : Builder) [] :=
                        ⟨h.c.wf, h.c.i2, h.c.pn, h.c.conn⟩
                      have hs' : b.hasNode s = true ∨ b.nodeOut s ≠ none := by
                        by_cases hh : b.hasNode s = true
                        · exact Or.inl hh
                        · right
                          have : s = START := by simpa [hh] using hs2
                          simp [Builder.nodeOut, this]
                      have he' : b.hasNode e = true ∨ b.nodeIn e ≠ none := by
                        by_cases hh : b.hasNode e = true
                        · exact Or.inl hh
                        · right
                          have : e = END := by simpa [hh] using he2
                          unfold Builder.nodeIn
                          by_cases h3 : e = START
                          · simp [h3]
                          · subst this; simp only [h3, ↓reduceIte]; simp
                      obtain ⟨hc2, hfr, hmo⟩ := data_step im ord hv _ b2 [] s e hc1 hs' he' hupd
                      refine ⟨⟨hc2.wf, hc2.i2, hc2.pn, ?_⟩, ?_, ?_⟩
                      · intro s' e' hc
                        apply hc2.conn
                        rcases hc with hc | hc
                        · rcases hc with hc | hc
                          · rcases List.mem_append.mp hc with hc | hc
                            · exact Or.inl (Or.inl hc)
                            · right; simpa using hc
                          · exact Or.inl (Or.inr hc)
                        · simp at hc
                      · show b2.branches.length = b2.preBranch.length
                        rw [hfr.branches, hfr.preBranch]; exact h.brLen
                      · intro p hp
                        have hp' : p ∈ b.branches.zip (b.preBranch.map (·.2)) := by
                          have : b2.branches.zip (b2.preBranch.map (·.2)) = b.branches.zip (b.preBranch.map (·.2)) := by
                            rw [hfr.branches, hfr.preBranch]
                          rw [← this]; exact hp
                        have hm' : Mono b b2 := ⟨hmo.tin, hmo.tout, hmo.may⟩
                        have := (h.br p hp').mono hm'
                        exact this


theorem InvC.weaken {im : Impl} {b : Builder} {X X' : List (Key × Key)} (h : InvC im b X)
    (hsub : ∀ p ∈ X', p ∈ X) : InvC im b X' :=
  ⟨h.wf, h.i2, h.pn, fun s e hc => h.conn s e (hc.imp id (hsub _))⟩

theorem branchEnds_spec (im : Impl) (ord : Ord) (hv : ord.Valid) (s : Key) :
    ∀ (es : List Key) (b : Builder) (X : List (Key × Key)) (b' : Builder),
      InvC im b X → (b.hasNode s = true ∨ b.nodeOut s ≠ none) →
      branchEnds im ord s es b = .ok b' →
      ∃ X', InvC im b' X' ∧ (∀ p ∈ X, p ∈ X') ∧ (∀ e ∈ es, (s, e) ∈ X') ∧ Mono b b' ∧
        b'.dataEdges = b.dataEdges ∧ b'.branches = b.branches ∧ b'.preBranch = b.preBranch := by
  intro es
  induction es with
  | nil =>
    intro b X b' hi _ h
    simp only [branchEnds, Except.ok.injEq] at h
    subst h
    exact ⟨X, hi, fun _ hp => hp, by simp, Mono.refl _, rfl, rfl, rfl⟩
  | cons e es ih =>
    intro b X b' hi hs h
    simp only [branchEnds] at h
    split at h
    · simp at h
    · rename_i he
      split at h
      · simp at h
      · rename_i b1 hupd
        have he' : b.hasNode e = true ∨ b.nodeIn e ≠ none := by
          by_cases hh : b.hasNode e = true
          · exact Or.inl hh
          · right
            have : e = END := by simpa [hh] using he
            unfold Builder.nodeIn
            by_cases h3 : e = START
            · simp [h3]
            · subst this; simp only [h3, ↓reduceIte]; simp
        obtain ⟨hc1, hfr, hmo⟩ := data_step im ord hv b b1 X s e hi hs he' hupd
        let b1' : Builder :=
          { b1 with startNodes := if s = START then b1.startNodes ++ [e] else b1.startNodes,
                    endNodes := if e = END then b1.endNodes ++ [s] else b1.endNodes }
        have hc1' : InvC im b1' ((s, e) :: X) := ⟨hc1.wf, hc1.i2, hc1.pn, hc1.conn⟩
        have hs1 : b1'.hasNode s = true ∨ b1'.nodeOut s ≠ none := by
          rcases hs with hs | hs
          · left; show b1.hasNode s = true; rw [hfr.hasNode]; exact hs
          · right
            rcases ho : b.nodeOut s with _ | A
            · exact absurd ho hs
            · show b1.nodeOut s ≠ none
              rw [hmo.tout s A ho]; simp
        obtain ⟨X', hx1, hx2, hx3, hm2, e1, e2, e3⟩ := ih b1' ((s, e) :: X) b' hc1' hs1 h
        refine ⟨X', hx1, fun p hp => hx2 p (List.mem_cons_of_mem _ hp), ?_, ?_, ?_, ?_, ?_⟩
        · intro e0 he0
          rcases List.mem_cons.mp he0 with r | r
          · subst r; exact hx2 _ List.mem_cons_self
          · exact hx3 e0 r
        · exact (Mono.mk hmo.tin hmo.tout hmo.may : Mono b b1').trans hm2
        · rw [e1]; exact hfr.dataEdges
        · rw [e2]; exact hfr.branches
        · rw [e3]; exact hfr.preBranch

/-- the part of addBranch after the branch condition type has been accepted -/
theorem addBranch_tail (im : Impl) (ord : Ord) (hv : ord.Valid) (b b1 b' : Builder) (s : Key) (t : Ty)
    (ends : List Key) (flag : Bool) (h : Inv im b)
    (hs2 : ¬(!b.hasNode s && s != START) = true)
    (hw1 : WF b1) (hq1 : Q b1 t) (hp1 : PN b1) (hm1 : Mono b b1) (hf1 : Frame b b1)
    (htv1 : b1.toValidate = b.toValidate)
    (hsb1 : SoundBr im b1 { src := s, inTy := t, ends := ends, noData := false } flag)
    (hb : (match update im ord { b1 with preBranch := b1.preBranch ++ [(s, flag)] } with
      | .error k => Except.error k
      | .ok b3 =>
        match branchEnds im ord s (ord.ends b3 ends) b3 with
        | .error k => Except.error k
        | .ok b4 =>
          (Except.ok ({ b4 with branches := b4.branches ++ [({ src := s, inTy := t, ends := ends, noData := false } : BranchRec)] } : Builder)
            : Except ErrKind Builder))
      = .ok b') : Inv im b' := by
  split at hb
  · simp at hb
  · rename_i b3 hupd
    split at hb
    · simp at hb
    · rename_i b4 hends
      simp only [Except.ok.injEq] at hb
      subst hb
      let b2 : Builder := { b1 with preBranch := b1.preBranch ++ [(s, flag)] }
      have hw2 : WF b2 := hw1
      have hq2 : Q b2 t := hq1
      have hp2 : PN b2 := hp1
      obtain ⟨hu, hi3, hpn3⟩ := update_spec im ord hv t b2 b3 hw2 hq2 hp2 hupd
      have hm13 : Mono b1 b3 := ⟨hu.step.mono.tin, hu.step.mono.tout, hu.step.mono.may⟩
      have hde3 : b3.dataEdges = b.dataEdges := by rw [hu.frame.dataEdges]; exact hf1.dataEdges
      have hbr3 : b3.branches = b.branches := by rw [hu.frame.branches]; exact hf1.branches
      have hpb3 : b3.preBranch = b.preBranch ++ [(s, flag)] := by
        rw [hu.frame.preBranch]; show b1.preBranch ++ [(s, flag)] = _; rw [hf1.preBranch]
      have hc3 : InvC im b3 [] := by
        refine ⟨hu.wf, hi3, hpn3, ?_⟩
        intro s' e' hc
        rcases hc with hc | hc
        · have hcb : Conn b s' e' := by
            unfold Conn at hc ⊢; rw [hde3, hbr3] at hc; exact hc
          rcases h.c.conn s' e' (Or.inl hcb) with ⟨x, hx, hd⟩ | hsd
          · have hx1 : x ∈ getSlice b2.toValidate s' := by
              show x ∈ getSlice b1.toValidate s'; rw [htv1]; exact hx
            rcases hu.resolved s' x hx1 with r' | r'
            · exact Or.inl ⟨x, r', hd⟩
            · exact Or.inr (hd ▸ r')
          · exact Or.inr ((hsd.mono hm1).mono hm13)
        · simp at hc
      have hs3 : b3.hasNode s = true ∨ b3.nodeOut s ≠ none := by
        by_cases hh : b.hasNode s = true
        · left
          have e1 : b3.hasNode s = b2.hasNode s := hu.frame.hasNode s
          have e2 : b2.hasNode s = b1.hasNode s := rfl
          rw [e1, e2, hf1.hasNode]; exact hh
        · right
          have hst : s = START := by simpa [hh] using hs2
          have : b.nodeOut s = some b.inT := by simp [Builder.nodeOut, hst]
          rw [hm13.tout s _ (hm1.tout s _ this)]; simp
      obtain ⟨X', hx1, _, hx3, hm34, e1, e2, e3⟩ := branchEnds_spec im ord hv s _ b3 [] b4 hc3 hs3 hends
      have hm04 : Mono b b4 := (hm1.trans hm13).trans hm34
      have hpb : b4.preBranch = b.preBranch ++ [(s, flag)] := by rw [e3]; exact hpb3
      have hbr : b4.branches = b.branches := by rw [e2]; exact hbr3
      refine ⟨⟨hx1.wf, hx1.i2, hx1.pn, ?_⟩, ?_, ?_⟩
      · intro s' e' hc
        apply hx1.conn
        rcases hc with hc | hc
        · rcases hc with hc | ⟨br, hbrm, hb1', hb2, hb3⟩
          · exact Or.inl (Or.inl hc)
          · rcases List.mem_append.mp hbrm with hbrm | hbrm
            · exact Or.inl (Or.inr ⟨br, hbrm, hb1', hb2, hb3⟩)
            · simp only [List.mem_singleton] at hbrm
              subst hbrm
              subst hb1'
              right
              exact hx3 e' (((hv.ends b3 ends).mem_iff).mpr hb2)
        · simp at hc
      · show (b4.branches ++ [_]).length = b4.preBranch.length
        rw [hpb, hbr]; simp [h.brLen]
      · intro p hp
        have hz : (b4.branches ++ [({ src := s, inTy := t, ends := ends, noData := false } : BranchRec)]).zip
              (b4.preBranch.map (·.2)) =
            b.branches.zip (b.preBranch.map (·.2)) ++
              [(({ src := s, inTy := t, ends := ends, noData := false } : BranchRec), flag)] := by
          rw [hpb, hbr, List.map_append]
          rw [List.zip_append (by simp [h.brLen])]
          simp
        have hp' : p ∈ b.branches.zip (b.preBranch.map (·.2)) ++
              [(({ src := s, inTy := t, ends := ends, noData := false } : BranchRec), flag)] := by
          rw [← hz]; exact hp
        rcases List.mem_append.mp hp' with hp' | hp'
        · have := (h.br p hp').mono hm04
          exact this
        · simp only [List.mem_singleton] at hp'
          subst hp'
          have := (hsb1.mono hm13).mono hm34
          exact this

theorem addBranch_inv (f : Facts) (hg : f.branchGuarded = true) (hpr : f.branchPropagates = true)
    (im : Impl) (ord : Ord) (hv : ord.Valid) (b : Builder) (s : Key) (t : Ty) (ends : List Key)
    (h : Inv im b) : Inv im (addBranch f im ord b s t ends false).1 := by
  unfold addBranch
  apply guarded_preserves (P := Inv im) _ _ _ h (fun k => h.setErr k)
  intro b' hb
  unfold addBranchBody at hb
  simp only [hg, hpr, Bool.not_true, Bool.false_or, ↓reduceIte, Bool.false_eq_true] at hb
  split at hb
  · simp at hb
  · split at hb
    · simp at hb
    · split at hb
      · simp at hb
      · rename_i hs1 hs2 hlen
        -- the state after the (guarded) typing of a pass-through start node
        generalize hb1 : (if (s != START && isPassthrough b s && (b.nodeIn s).isNone) = true then b.setTy s t else b) = b1 at hb
        have hfacts : WF b1 ∧ Q b1 t ∧ PN b1 ∧ Mono b b1 ∧ Frame b b1 ∧ b1.toValidate = b.toValidate := by
          split at hb1
          · rename_i hcond
            subst hb1
            have hin : b.nodeIn s = none := by
              simp only [Bool.and_eq_true, Option.isNone_iff_eq_none] at hcond; exact hcond.2
            have hon : b.nodeOut s = none := (h.c.wf.untyped_iff s).mp hin
            have hst := StepT.setTy b s t (Or.inl hin) (Or.inl hon)
            exact ⟨h.c.wf.setTy s t, (h.c.i2.q t).step hst (fun _ _ hx => hx),
              h.c.pn.step hst.mono (Frame.setTy b s t) (fun _ _ hx => hx), hst.mono, Frame.setTy b s t, rfl⟩
          · subst hb1
            exact ⟨h.c.wf, h.c.i2.q t, h.c.pn, Mono.refl _, Frame.refl _, rfl⟩
        obtain ⟨hw1, hq1, hp1, hm1, hf1, htv1⟩ := hfacts
        rcases hr : checkAssignable im (b1.nodeOut s) (some t) with _ | _ | _
        · simp [hr] at hb
        · simp only [hr] at hb
          refine addBranch_tail im ord hv b b1 b' s t ends false h hs2 hw1 hq1 hp1 hm1 hf1 htv1 ?_ hb
          unfold SoundBr; simp only [hr]
        · simp only [hr] at hb
          refine addBranch_tail im ord hv b b1 b' s t ends true h hs2 hw1 hq1 hp1 hm1 hf1 htv1 ?_ hb
          unfold SoundBr; simp only [hr]

end EinoV.Build
