/-
  The type-inference invariant of the builder (used by C07 soundness and C20 order-freeness):
  what `updateToValidateMap` preserves whatever order Go's map iteration takes.
-/
import EinoV.Model.C20Builder
import EinoV.Proofs.C20

namespace EinoV.Build

/-! ### node table lemmas -/

theorem findNode_setTyIn_ne (ns : List Node) (k k' : Key) (t : Ty) (h : k' ≠ k) :
    findNode (setTyIn ns k t) k' = findNode ns k' := by
  induction ns with
  | nil => rfl
  | cons n ns ih =>
    simp only [setTyIn]
    by_cases hk : n.key = k
    · simp only [hk, ↓reduceIte, findNode]
      have : ¬ k = k' := fun e => h e.symm
      simp [this]
    · simp only [hk, ↓reduceIte, findNode]
      split
      · rfl
      · exact ih

theorem findNode_setTyIn_eq (ns : List Node) (k : Key) (t : Ty) :
    findNode (setTyIn ns k t) k =
      (findNode ns k).map (fun n => { n with inTy := some t, outTy := some t }) := by
  induction ns with
  | nil => rfl
  | cons n ns ih =>
    simp only [setTyIn]
    by_cases hk : n.key = k
    · simp [hk, findNode]
    · simp [hk, findNode, ih]

theorem nodeIn_setTy_ne (b : Builder) (k k' : Key) (t : Ty) (h : k' ≠ k) :
    (b.setTy k t).nodeIn k' = b.nodeIn k' := by
  simp [Builder.nodeIn, Builder.setTy, findNode_setTyIn_ne _ _ _ _ h]

theorem nodeOut_setTy_ne (b : Builder) (k k' : Key) (t : Ty) (h : k' ≠ k) :
    (b.setTy k t).nodeOut k' = b.nodeOut k' := by
  simp [Builder.nodeOut, Builder.setTy, findNode_setTyIn_ne _ _ _ _ h]

/-- a key whose input type is unknown is a node key or absent, never START/END -/
theorem nodeIn_none_ne (b : Builder) (k : Key) (h : b.nodeIn k = none) : k ≠ START ∧ k ≠ END := by
  unfold Builder.nodeIn at h
  constructor <;> intro e <;> simp [e] at h
  · by_cases h2 : END = START <;> simp [h2] at h

theorem nodeOut_none_ne (b : Builder) (k : Key) (h : b.nodeOut k = none) : k ≠ START ∧ k ≠ END := by
  unfold Builder.nodeOut at h
  constructor <;> intro e <;> simp [e] at h
  · by_cases h2 : END = START <;> simp [h2] at h

private theorem auxIn (x : Option Node) (t : Ty) :
    (match Option.map (fun n : Node => { n with inTy := some t, outTy := some t }) x with
      | some n => n.inTy
      | none => none) = if x.isSome = true then some t else none := by
  cases x <;> rfl

private theorem auxOut (x : Option Node) (t : Ty) :
    (match Option.map (fun n : Node => { n with inTy := some t, outTy := some t }) x with
      | some n => n.outTy
      | none => none) = if x.isSome = true then some t else none := by
  cases x <;> rfl

/-- after `setTy k t` the key reads `t` on both sides – if it is a node -/
theorem nodeIn_setTy_self (b : Builder) (k : Key) (t : Ty) (h1 : k ≠ START) (h2 : k ≠ END) :
    (b.setTy k t).nodeIn k = if b.hasNode k then some t else none := by
  simp only [Builder.nodeIn, Builder.setTy, h1, h2, ↓reduceIte, findNode_setTyIn_eq, Builder.hasNode]
  exact auxIn _ _

theorem nodeOut_setTy_self (b : Builder) (k : Key) (t : Ty) (h1 : k ≠ START) (h2 : k ≠ END) :
    (b.setTy k t).nodeOut k = if b.hasNode k then some t else none := by
  simp only [Builder.nodeOut, Builder.setTy, h1, h2, ↓reduceIte, findNode_setTyIn_eq, Builder.hasNode]
  exact auxOut _ _


theorem findNode_mem {ns : List Node} {k : Key} {n : Node} (h : findNode ns k = some n) : n ∈ ns ∧ n.key = k := by
  induction ns with
  | nil => simp [findNode] at h
  | cons m ns ih =>
    simp only [findNode] at h
    split at h
    · rename_i hk; simp at h; subst h; exact ⟨List.mem_cons_self, hk⟩
    · have := ih h; exact ⟨List.mem_cons_of_mem _ this.1, this.2⟩

/-! ### invariants -/

def NodeOK (n : Node) : Prop :=
  (n.passthrough = true → n.inTy = n.outTy) ∧ (n.passthrough = false → n.inTy.isSome ∧ n.outTy.isSome)

/-- pass-through nodes have one type for both sides, other nodes are fully typed -/
def WF (b : Builder) : Prop := ∀ n ∈ b.nodes, NodeOK n

theorem WF.untyped_iff {b : Builder} (hw : WF b) (k : Key) : b.nodeIn k = none ↔ b.nodeOut k = none := by
  unfold Builder.nodeIn Builder.nodeOut
  by_cases h1 : k = START
  · simp [h1]
  · by_cases h2 : k = END
    · simp [h1, h2]
    · simp only [h1, h2, ↓reduceIte]
      rcases hf : findNode b.nodes k with _ | n
      · simp
      · have hn := hw n (findNode_mem hf).1
        simp only
        cases hp : n.passthrough
        · have := hn.2 hp
          constructor
          · intro h; rw [h] at this; simp at this
          · intro h; rw [h] at this; simp at this
        · rw [hn.1 hp]

theorem setTyIn_ok (ns : List Node) (k : Key) (t : Ty) (h : ∀ n ∈ ns, NodeOK n) :
    ∀ n ∈ setTyIn ns k t, NodeOK n := by
  induction ns with
  | nil => simp [setTyIn]
  | cons m ns ih =>
    intro n hn
    simp only [setTyIn] at hn
    split at hn
    · rcases List.mem_cons.mp hn with e | e
      · subst e; exact ⟨fun _ => rfl, fun _ => ⟨rfl, rfl⟩⟩
      · exact h n (List.mem_cons_of_mem _ e)
    · rcases List.mem_cons.mp hn with e | e
      · subst e; exact h _ List.mem_cons_self
      · exact ih (fun x hx => h x (List.mem_cons_of_mem _ hx)) n e

theorem WF.setTy {b : Builder} (hw : WF b) (k : Key) (t : Ty) : WF (b.setTy k t) := by
  intro n hn
  exact setTyIn_ok b.nodes k t hw n hn

/-- everything an inference step leaves alone -/
def Builder.frame (b : Builder) :=
  (b.cmp, b.inT, b.outT, b.stateTy, b.controlEdges, b.dataEdges, b.branches, b.startNodes, b.endNodes,
   b.fmRecords, b.mapEdges, b.preBranch, b.preNode, b.buildError, b.compiled,
   b.nodes.map (fun n => (n.key, n.passthrough)))

def Frame (b b' : Builder) : Prop := b'.frame = b.frame

theorem Frame.refl (b : Builder) : Frame b b := rfl
theorem Frame.trans {a b c : Builder} (h1 : Frame a b) (h2 : Frame b c) : Frame a c := by
  unfold Frame at *; rw [h2, h1]

theorem setTyIn_keys (ns : List Node) (k : Key) (t : Ty) :
    (setTyIn ns k t).map (fun n => (n.key, n.passthrough)) = ns.map (fun n => (n.key, n.passthrough)) := by
  induction ns with
  | nil => rfl
  | cons m ns ih =>
    simp only [setTyIn]
    split
    · simp
    · simp [ih]

theorem Frame.setTy (b : Builder) (k : Key) (t : Ty) : Frame b (b.setTy k t) := by
  simp [Frame, Builder.frame, Builder.setTy, setTyIn_keys]

theorem findNode_isSome_of_keys {ns ms : List Node}
    (h : ms.map (fun n => (n.key, n.passthrough)) = ns.map (fun n => (n.key, n.passthrough))) (k : Key) :
    (findNode ms k).isSome = (findNode ns k).isSome ∧
    (findNode ms k).map (·.passthrough) = (findNode ns k).map (·.passthrough) := by
  induction ns generalizing ms with
  | nil => cases ms with
    | nil => simp [findNode]
    | cons m ms => simp at h
  | cons n ns ih =>
    cases ms with
    | nil => simp at h
    | cons m ms =>
      simp only [List.map_cons, List.cons.injEq, Prod.mk.injEq] at h
      simp only [findNode, h.1.1]
      split
      · simp [h.1.2]
      · exact ih h.2

theorem Frame.hasNode {b b' : Builder} (h : Frame b b') (k : Key) : b'.hasNode k = b.hasNode k := by
  have hk : b'.nodes.map (fun n => (n.key, n.passthrough)) = b.nodes.map (fun n => (n.key, n.passthrough)) := by
    have := h; simp only [Frame, Builder.frame, Prod.mk.injEq] at this; exact this.2.2.2.2.2.2.2.2.2.2.2.2.2.2.2
  exact (findNode_isSome_of_keys hk k).1

theorem Frame.isPassthrough {b b' : Builder} (h : Frame b b') (k : Key) :
    EinoV.Build.isPassthrough b' k = EinoV.Build.isPassthrough b k := by
  have hk : b'.nodes.map (fun n => (n.key, n.passthrough)) = b.nodes.map (fun n => (n.key, n.passthrough)) := by
    have := h; simp only [Frame, Builder.frame, Prod.mk.injEq] at this; exact this.2.2.2.2.2.2.2.2.2.2.2.2.2.2.2
  have := (findNode_isSome_of_keys hk k).2
  unfold EinoV.Build.isPassthrough
  rcases h1 : findNode b'.nodes k with _ | n1 <;> rcases h2 : findNode b.nodes k with _ | n2 <;> simp_all

/-- known types stay, run-time check marks stay -/
structure Mono (b b' : Builder) : Prop where
  tin : ∀ k t, b.nodeIn k = some t → b'.nodeIn k = some t
  tout : ∀ k t, b.nodeOut k = some t → b'.nodeOut k = some t
  may : ∀ x, x ∈ b.mayEdges → x ∈ b'.mayEdges

theorem Mono.refl (b : Builder) : Mono b b := ⟨fun _ _ h => h, fun _ _ h => h, fun _ h => h⟩
theorem Mono.trans {a b c : Builder} (h1 : Mono a b) (h2 : Mono b c) : Mono a c :=
  ⟨fun k t h => h2.tin k t (h1.tin k t h), fun k t h => h2.tout k t (h1.tout k t h), fun x h => h2.may x (h1.may x h)⟩

theorem hasNode_of_nodeIn {b : Builder} {k : Key} {t : Ty} (h : b.nodeIn k = some t)
    (h1 : k ≠ START) (h2 : k ≠ END) : b.hasNode k = true := by
  unfold Builder.nodeIn at h
  simp only [h1, h2, ↓reduceIte] at h
  unfold Builder.hasNode
  rcases hf : findNode b.nodes k with _ | n
  · simp [hf] at h
  · rfl

theorem hasNode_of_nodeOut {b : Builder} {k : Key} {t : Ty} (h : b.nodeOut k = some t)
    (h1 : k ≠ START) (h2 : k ≠ END) : b.hasNode k = true := by
  unfold Builder.nodeOut at h
  simp only [h1, h2, ↓reduceIte] at h
  unfold Builder.hasNode
  rcases hf : findNode b.nodes k with _ | n
  · simp [hf] at h
  · rfl

theorem nodeIn_setTy_reserved (b : Builder) (k k' : Key) (t : Ty) (h : k' = START ∨ k' = END) :
    (b.setTy k t).nodeIn k' = b.nodeIn k' := by
  rcases h with h | h <;> simp [Builder.nodeIn, Builder.setTy, h]

theorem nodeOut_setTy_reserved (b : Builder) (k k' : Key) (t : Ty) (h : k' = START ∨ k' = END) :
    (b.setTy k t).nodeOut k' = b.nodeOut k' := by
  rcases h with h | h <;> simp [Builder.nodeOut, Builder.setTy, h]

/-- what `setTy k t` does to any key's types: unchanged, or now `t` -/
theorem setTy_cases (b : Builder) (k : Key) (t : Ty) (x : Key) :
    ((b.setTy k t).nodeIn x = b.nodeIn x ∨ (x = k ∧ (b.setTy k t).nodeIn x = some t)) ∧
    ((b.setTy k t).nodeOut x = b.nodeOut x ∨ (x = k ∧ (b.setTy k t).nodeOut x = some t)) := by
  by_cases hx : x = k
  · subst hx
    by_cases hr : x = START ∨ x = END
    · exact ⟨Or.inl (nodeIn_setTy_reserved b x x t hr), Or.inl (nodeOut_setTy_reserved b x x t hr)⟩
    · have h1 : x ≠ START := fun e => hr (Or.inl e)
      have h2 : x ≠ END := fun e => hr (Or.inr e)
      rw [nodeIn_setTy_self b x t h1 h2, nodeOut_setTy_self b x t h1 h2]
      cases hh : b.hasNode x
      · have hi : b.nodeIn x = none := by
          unfold Builder.nodeIn; simp only [h1, h2, ↓reduceIte]
          unfold Builder.hasNode at hh
          rcases hf : findNode b.nodes x with _ | n
          · rfl
          · simp [hf] at hh
        have ho : b.nodeOut x = none := by
          unfold Builder.nodeOut; simp only [h1, h2, ↓reduceIte]
          unfold Builder.hasNode at hh
          rcases hf : findNode b.nodes x with _ | n
          · rfl
          · simp [hf] at hh
        simp [hi, ho]
      · simp
  · exact ⟨Or.inl (nodeIn_setTy_ne b k x t hx), Or.inl (nodeOut_setTy_ne b k x t hx)⟩

theorem Mono.setTy (b : Builder) (k : Key) (t : Ty)
    (hi : b.nodeIn k = none ∨ b.nodeIn k = some t) (ho : b.nodeOut k = none ∨ b.nodeOut k = some t) :
    Mono b (b.setTy k t) := by
  refine ⟨?_, ?_, fun x h => h⟩
  · intro x t0 hx
    rcases (setTy_cases b k t x).1 with e | ⟨e1, e2⟩
    · rw [e]; exact hx
    · subst e1
      rcases hi with hi | hi
      · rw [hi] at hx; simp at hx
      · rw [hi] at hx; rw [e2]; exact hx
  · intro x t0 hx
    rcases (setTy_cases b k t x).2 with e | ⟨e1, e2⟩
    · rw [e]; exact hx
    · subst e1
      rcases ho with ho | ho
      · rw [ho] at hx; simp at hx
      · rw [ho] at hx; rw [e2]; exact hx

end EinoV.Build
