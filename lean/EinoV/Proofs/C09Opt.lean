/-
  C09 — call options of concurrent runs: the run invariant of the copying `extractOption`
  under Go slice semantics (heap/slice algebra of the C10 model) and the invariant of a
  ToolsNode run that converts its `WithToolList` option into locals.
  (Property statements are in EinoV/Props/C09.lean.)
-/
import EinoV.Model.C09Opt
import EinoV.Proofs.C10

namespace EinoV.C09.Opt
open EinoV.C10

theorem writeAt_nil (a : List Hd) (pos : Nat) : writeAt a pos [] = a := by
  simp [writeAt]

theorem writeAt_length (a : List Hd) (pos : Nat) (xs : List Hd) (h : pos + xs.length ≤ a.length) :
    (writeAt a pos xs).length = a.length := by
  simp [writeAt]; omega

theorem writeAt_read (a xs : List Hd) (off len : Nat) (h : off + len + xs.length ≤ a.length) :
    ((writeAt a (off + len) xs).drop off).take (len + xs.length) = (a.drop off).take len ++ xs := by
  unfold writeAt
  have h1 : off ≤ (a.take (off + len)).length := by simp; omega
  rw [List.append_assoc, List.drop_append_of_le_length h1]
  have h2 : (a.take (off + len)).drop off = (a.drop off).take len := by
    rw [List.drop_take]; simp
  rw [h2]
  have h3 : ((a.drop off).take len).length = len := by simp; omega
  rw [← List.append_assoc]
  have h4 : ((a.drop off).take len ++ xs).length = len + xs.length := by simp [h3]
  rw [← h4, List.take_left']
  rfl

/-- the array behind id `a` -/
def arrOf (h : Heap) (a : Nat) : List Hd := (h[a]?).getD []

theorem read_eq (h : Heap) (s : Slice) : h.read s = ((arrOf h s.arr).drop s.off).take s.len := rfl

theorem read_congr {h h' : Heap} {s : Slice} (e : h'[s.arr]? = h[s.arr]?) : h'.read s = h.read s := by
  simp [Heap.read, e]

theorem roundCap_ge (c : Nat) : c ≤ roundCap c := by
  unfold roundCap
  split
  · omega
  · split <;> omega

theorem growCap_ge (old need : Nat) : need ≤ growCap old need := by
  unfold growCap
  refine Nat.le_trans ?_ (roundCap_ge _)
  split
  · omega
  · split <;> omega

/-- storage a thread owns: nothing yet, or a window with honest capacity into an array that was
    allocated after the caller's arrays -/
def Owned (n0 : Nat) (h : Heap) (s : Slice) : Prop :=
  (s.len = 0 ∧ s.cap = 0) ∨
  (n0 ≤ s.arr ∧ s.arr < h.length ∧ s.len ≤ s.cap ∧ s.off + s.cap ≤ (arrOf h s.arr).length)

theorem read_empty (h : Heap) (s : Slice) (e : s.len = 0) : h.read s = [] := by
  simp [Heap.read, e]

/-- in-place branch of `append` -/
theorem goAppend_inplace (h : Heap) (s : Slice) (xs : List Hd) (hc : s.len + xs.length ≤ s.cap) :
    goAppend h s xs =
      (h.set s.arr (writeAt (arrOf h s.arr) (s.off + s.len) xs), { s with len := s.len + xs.length }) := by
  simp [goAppend, hc, arrOf]

theorem goAppend_alloc (h : Heap) (s : Slice) (xs : List Hd) (hc : ¬ s.len + xs.length ≤ s.cap) :
    goAppend h s xs =
      (h ++ [(h.read s ++ xs) ++ List.replicate (growCap s.cap (h.read s ++ xs).length - (h.read s ++ xs).length) default],
       { arr := h.length, off := 0, len := (h.read s ++ xs).length, cap := growCap s.cap (h.read s ++ xs).length }) := by
  simp [goAppend, hc]


/-- what `append` guarantees when the destination is storage the thread owns -/
structure AppendSpec (n0 : Nat) (h : Heap) (s : Slice) (xs : List Hd) (r : Heap × Slice) : Prop where
  len : h.length ≤ r.1.length
  frame : ∀ a, a < h.length → (s.cap = 0 ∨ a ≠ s.arr) → r.1[a]? = h[a]?
  owned : Owned n0 r.1 r.2
  read : r.1.read r.2 = h.read s ++ xs
  arr : r.2.cap ≠ 0 → (r.2.arr = s.arr ∧ s.cap ≠ 0) ∨ (r.2.arr = h.length)

theorem goAppend_spec (n0 : Nat) (h : Heap) (s : Slice) (xs : List Hd)
    (ho : Owned n0 h s) (hn : n0 ≤ h.length) : AppendSpec n0 h s xs (goAppend h s xs) := by
  by_cases hc : s.len + xs.length ≤ s.cap
  · rw [goAppend_inplace h s xs hc]
    by_cases hz : s.cap = 0
    · -- nothing collected, nothing to add: the heap is rewritten with itself
      have hl : s.len = 0 := by omega
      have hx : xs = [] := by
        have : xs.length = 0 := by omega
        exact List.eq_nil_of_length_eq_zero this
      subst hx
      have hset : ∀ a, a < h.length → (h.set s.arr (writeAt (arrOf h s.arr) (s.off + s.len) []))[a]? = h[a]? := by
        intro a ha
        rw [writeAt_nil, List.getElem?_set]
        by_cases e : s.arr = a
        · subst e; simp [arrOf, ha]
        · simp [e]
      refine ⟨by simp, fun a ha _ => hset a ha, Or.inl ⟨by simp [hl], hz⟩, ?_, ?_⟩
      · rw [read_empty _ _ (by simp [hl]), read_empty _ _ hl]; rfl
      · intro h'; exact absurd hz h'
    · rcases ho with ⟨_, hz'⟩ | ⟨h1, h2, h3, h4⟩
      · exact absurd hz' hz
      · have hw : s.off + s.len + xs.length ≤ (arrOf h s.arr).length := by omega
        refine ⟨by simp, ?_, Or.inr ⟨h1, by simpa using h2, by simpa using hc, ?_⟩, ?_, ?_⟩
        · intro a _ hne
          rcases hne with hne | hne
          · exact absurd hne hz
          · rw [List.getElem?_set]; simp [Ne.symm hne]
        · simp only [arrOf, List.getElem?_set, h2, if_true, Option.getD_some]
          rw [writeAt_length _ _ _ (by simpa [arrOf] using hw)]
          exact h4
        · simp only [Heap.read, List.getElem?_set, h2, if_true, Option.getD_some]
          exact writeAt_read _ _ _ _ hw
        · intro _; exact Or.inl ⟨rfl, hz⟩
  · rw [goAppend_alloc h s xs hc]
    have hg := growCap_ge s.cap (h.read s ++ xs).length
    refine ⟨by simp, ?_, Or.inr ⟨hn, by simp, hg, ?_⟩, ?_, ?_⟩
    · intro a ha _
      exact List.getElem?_append_left ha
    · simp [arrOf]; omega
    · exact read_fresh h _ _ _ _ rfl
    · intro _; exact Or.inr rfl


/-! ### the run invariant of the copying extraction -/

structure Inv (h0 : Heap) (prog : List (List Slice)) (st : St) : Prop where
  len : h0.length ≤ st.heap.length
  pre : ∀ a, a < h0.length → st.heap[a]? = h0[a]?
  own : ∀ t, Owned h0.length st.heap (st.th t).acc
  dist : ∀ t t', t ≠ t' → (st.th t).acc.cap ≠ 0 → (st.th t').acc.cap ≠ 0 →
    (st.th t).acc.arr ≠ (st.th t').acc.arr
  rd : ∀ t gs, prog[t]? = some gs →
    st.heap.read (st.th t).acc = ((gs.take (st.th t).pc).map h0.read).flatten
  sn : ∀ t gs r, prog[t]? = some gs → (st.th t).seen = some r → r = (gs.map h0.read).flatten

theorem inv_init (h0 : Heap) (prog : List (List Slice)) : Inv h0 prog (St.init h0) where
  len := Nat.le_refl _
  pre := fun _ _ => rfl
  own := fun _ => Or.inl ⟨rfl, rfl⟩
  dist := by intro t t' _ h; simp [St.init, TState.init, Slice.nil] at h
  rd := by intro t gs _; simp [St.init, TState.init, read_nil]
  sn := by intro t gs r _ h; simp [St.init, TState.init] at h

theorem upd_same (f : Nat → TState) (i : Nat) (v : TState) : upd f i v i = v := by simp [upd]
theorem upd_other (f : Nat → TState) (i j : Nat) (v : TState) (h : j ≠ i) : upd f i v j = f j := by
  simp [upd, h]

theorem owned_cap_zero {n0 : Nat} {h : Heap} {s : Slice} (ho : Owned n0 h s) (hz : s.cap = 0) :
    s.len = 0 := by
  rcases ho with ⟨h1, _⟩ | ⟨_, _, h3, _⟩
  · exact h1
  · omega

theorem inv_step {h0 : Heap} {prog : List (List Slice)} (wf : WF h0 prog) {st : St}
    (inv : Inv h0 prog st) (t : Nat) : Inv h0 prog (step true prog st t) := by
  unfold step
  split
  · exact inv
  · rename_i gs hgs
    dsimp only
    split
    · rename_i g hg
      -- collect one more group
      have hgm : g ∈ gs := List.mem_of_getElem? hg
      have hga : g.arr < h0.length := wf gs (List.mem_of_getElem? hgs) g hgm
      have hrg : st.heap.read g = h0.read g := read_congr (inv.pre _ hga)
      have hcol : collect true st.heap (st.th t).acc g = goAppend st.heap (st.th t).acc (h0.read g) := by
        simp [collect, hrg]
      have sp := goAppend_spec h0.length st.heap (st.th t).acc (h0.read g) (inv.own t) inv.len
      rw [hcol]
      -- arrays of other threads and of the caller are not touched
      have hframe : ∀ s : Slice, Owned h0.length st.heap s → s.cap ≠ 0 →
          ((st.th t).acc.cap ≠ 0 → (st.th t).acc.arr ≠ s.arr) →
          (goAppend st.heap (st.th t).acc (h0.read g)).1[s.arr]? = st.heap[s.arr]? := by
        intro s hs hc hne
        rcases hs with ⟨_, hz⟩ | ⟨_, h2, _, _⟩
        · exact absurd hz hc
        · apply sp.frame _ h2
          by_cases hz : (st.th t).acc.cap = 0
          · exact Or.inl hz
          · exact Or.inr (Ne.symm (hne hz))
      refine ⟨Nat.le_trans inv.len sp.len, ?_, ?_, ?_, ?_, ?_⟩
      · intro a ha
        rw [sp.frame a (Nat.lt_of_lt_of_le ha inv.len) ?_]
        · exact inv.pre a ha
        · rcases inv.own t with ⟨_, hz⟩ | ⟨h1, _, _, _⟩
          · exact Or.inl hz
          · exact Or.inr (by omega)
      · intro t'
        by_cases e : t' = t
        · subst e; simp only [upd_same]; exact sp.owned
        · simp only [upd_other _ _ _ _ e]
          by_cases hz : (st.th t').acc.cap = 0
          · exact Or.inl ⟨owned_cap_zero (inv.own t') hz, hz⟩
          · have hfr := hframe _ (inv.own t') hz (fun hc => inv.dist t t' (Ne.symm e) hc hz)
            rcases inv.own t' with ⟨_, hz'⟩ | ⟨h1, h2, h3, h4⟩
            · exact absurd hz' hz
            · exact Or.inr ⟨h1, Nat.lt_of_lt_of_le h2 sp.len, h3, by simpa [arrOf, hfr] using h4⟩
      · intro t1 t2 hne h1 h2
        by_cases e1 : t1 = t
        · subst e1
          have e2 : t2 ≠ t1 := Ne.symm hne
          simp only [upd_same, upd_other _ _ _ _ e2] at h1 h2 ⊢
          rcases sp.arr h1 with ⟨ha, hc⟩ | ha
          · rw [ha]; exact inv.dist t1 t2 hne hc h2
          · rw [ha]
            rcases inv.own t2 with ⟨_, hz⟩ | ⟨_, hlt, _, _⟩
            · exact absurd hz h2
            · omega
        · by_cases e2 : t2 = t
          · subst e2
            simp only [upd_same, upd_other _ _ _ _ e1] at h1 h2 ⊢
            rcases sp.arr h2 with ⟨ha, hc⟩ | ha
            · rw [ha]; exact inv.dist t1 t2 hne h1 hc
            · rw [ha]
              rcases inv.own t1 with ⟨_, hz⟩ | ⟨_, hlt, _, _⟩
              · exact absurd hz h1
              · omega
          · simp only [upd_other _ _ _ _ e1, upd_other _ _ _ _ e2] at h1 h2 ⊢
            exact inv.dist t1 t2 hne h1 h2
      · intro t' gs' hgs'
        by_cases e : t' = t
        · subst e
          simp only [upd_same]
          have : gs' = gs := by rw [hgs] at hgs'; exact (Option.some.inj hgs').symm
          subst this
          rw [sp.read, inv.rd t' gs' hgs, List.take_add_one, hg]
          simp
        · simp only [upd_other _ _ _ _ e]
          rw [← inv.rd t' gs' hgs']
          by_cases hz : (st.th t').acc.cap = 0
          · have hl := owned_cap_zero (inv.own t') hz
            rw [read_empty _ _ hl, read_empty _ _ hl]
          · exact read_congr (hframe _ (inv.own t') hz (fun hc => inv.dist t t' (Ne.symm e) hc hz))
      · intro t' gs' r hgs' hs
        by_cases e : t' = t
        · subst e
          simp only [upd_same] at hs
          exact inv.sn t' gs' r hgs' hs
        · simp only [upd_other _ _ _ _ e] at hs
          exact inv.sn t' gs' r hgs' hs
    · rename_i hg
      split
      · exact inv
      · rename_i hns
        refine ⟨inv.len, inv.pre, ?_, ?_, ?_, ?_⟩
        · intro t'
          by_cases e : t' = t
          · subst e; simp only [upd_same]; exact inv.own t'
          · simp only [upd_other _ _ _ _ e]; exact inv.own t'
        · intro t1 t2 hne h1 h2
          have key : ∀ x, (upd st.th t { st.th t with seen := some (st.heap.read (st.th t).acc) } x).acc = (st.th x).acc := by
            intro x; by_cases e : x = t
            · subst e; simp [upd_same]
            · simp [upd_other _ _ _ _ e]
          rw [key] at h1 h2 ⊢
          rw [key]
          exact inv.dist t1 t2 hne h1 h2
        · intro t' gs' hgs'
          by_cases e : t' = t
          · subst e; simp only [upd_same]; exact inv.rd t' gs' hgs'
          · simp only [upd_other _ _ _ _ e]; exact inv.rd t' gs' hgs'
        · intro t' gs' r hgs' hs
          by_cases e : t' = t
          · subst e
            simp only [upd_same] at hs
            have : gs' = gs := by rw [hgs] at hgs'; exact (Option.some.inj hgs').symm
            subst this
            have hr : r = st.heap.read (st.th t').acc := by
              simpa using hs.symm
            rw [hr, inv.rd t' gs' hgs]
            have hle : gs'.length ≤ (st.th t').pc := by
              simpa using hg
            rw [List.take_of_length_le hle]
          · simp only [upd_other _ _ _ _ e] at hs
            exact inv.sn t' gs' r hgs' hs

theorem inv_exec {h0 : Heap} {prog : List (List Slice)} (wf : WF h0 prog) (sched : List Nat) :
    ∀ st, Inv h0 prog st → Inv h0 prog (exec true prog sched st) := by
  induction sched with
  | nil => intro st h; exact h
  | cons t rest ih => intro st h; exact ih _ (inv_step wf h t)

theorem wf_progOf {h0 : Heap} {calls : List (List Group)} (wf : CallsWF h0 calls)
    (threads : List (Nat × Path)) : WF h0 (progOf calls threads) := by
  intro gs hgs g hg
  simp only [progOf, List.mem_map] at hgs
  obtain ⟨ip, _, rfl⟩ := hgs
  simp only [reaching, List.mem_map, List.mem_filter] at hg
  obtain ⟨grp, ⟨hm, _⟩, rfl⟩ := hg
  rw [List.getD_eq_getElem?_getD] at hm
  cases hc : calls[ip.1]? with
  | none => simp [hc] at hm
  | some cs =>
    simp only [hc, Option.getD_some] at hm
    exact wf cs (List.mem_of_getElem? hc) grp hm

end EinoV.C09.Opt

namespace EinoV.C09.Tools

/-- run `i` has not entered the node yet, or it holds the conversion of ITS list -/
def Good (lists : Nat → Nat) (st : St) : Prop :=
  st.node = ⟨none, none⟩ ∧ ∀ i, st.rs i = ⟨0, none⟩ ∨ st.rs i = ⟨1, some (lists i)⟩

theorem good_init (lists : Nat → Nat) : Good lists St.init := ⟨rfl, fun _ => Or.inl rfl⟩

theorem good_step {lists : Nat → Nat} {st : St} (g : Good lists st) (i : Nat) :
    Good lists (step false lists st i) := by
  obtain ⟨gn, gr⟩ := g
  unfold step
  simp only [Bool.not_false, if_true]
  rcases gr i with h | h
  · rw [h]
    refine ⟨gn, fun j => ?_⟩
    by_cases e : j = i
    · subst e; simp [upd]
    · simp only [upd, e, if_false]; exact gr j
  · rw [h]
    exact ⟨gn, gr⟩

theorem good_exec {lists : Nat → Nat} (sched : List Nat) :
    ∀ st, Good lists st → Good lists (exec false lists sched st) := by
  induction sched with
  | nil => intro st g; exact g
  | cons i rest ih => intro st g; exact ih _ (good_step g i)

/-- once run `i` holds the conversion of its list, it keeps it -/
theorem done_exec {lists : Nat → Nat} (sched : List Nat) (i : Nat) :
    ∀ st, Good lists st → st.rs i = ⟨1, some (lists i)⟩ →
      (exec false lists sched st).rs i = ⟨1, some (lists i)⟩ := by
  induction sched with
  | nil => intro st _ h; exact h
  | cons j rest ih =>
    intro st g h
    refine ih _ (good_step g j) ?_
    unfold step
    simp only [Bool.not_false, if_true]
    by_cases e : j = i
    · subst e; rw [h]; exact h
    · rcases g.2 j with hj | hj
      · rw [hj]; simp only [upd]; simp [Ne.symm e, h]
      · rw [hj]; exact h

theorem mem_exec {lists : Nat → Nat} (sched : List Nat) (i : Nat) (hi : i ∈ sched) :
    ∀ st, Good lists st → (exec false lists sched st).rs i = ⟨1, some (lists i)⟩ := by
  induction sched with
  | nil => cases hi
  | cons j rest ih =>
    intro st g
    by_cases e : j = i
    · subst e
      refine done_exec rest j _ (good_step g j) ?_
      unfold step
      simp only [Bool.not_false, if_true]
      rcases g.2 j with hj | hj
      · rw [hj]; simp [upd]
      · rw [hj]; exact hj
    · have : i ∈ rest := by
        rcases List.mem_cons.mp hi with h | h
        · exact absurd h.symm e
        · exact h
      exact ih this _ (good_step g j)

end EinoV.C09.Tools
