/-
  C17, family `readers` — helper lemmas (Model/C17Readers.lean).
-/
import EinoV.Model.C17Readers

namespace EinoV.C17

def ConcatFacts.Good (CF : ConcatFacts) : Prop := CF.arrayAllocates = true ∧ CF.msgsAllocates = true

theorem writeBack_good {CF : ConcatFacts} (h : CF.Good) (cells : Cells) (res : List (Option Msg)) :
    writeBack CF cells res = cells := by
  obtain ⟨h1, h2⟩ := h
  unfold writeBack
  simp [h1, h2]

theorem readOnce_good {CF : ConcatFacts} (h : CF.Good) (cells : Cells) :
    readOnce CF cells = (collect cells, cells) := by
  unfold readOnce
  cases hc : collect cells with
  | ok res => simp [writeBack_good h]
  | error e => rfl

/-- with an allocating concatenation every reader finds the chunks as they were sent and
    gets the same concatenation; the store is unchanged afterwards -/
theorem readK_good {CF : ConcatFacts} (h : CF.Good) :
    ∀ (k : Nat) (cells : Cells), readK CF k cells = (List.replicate k (collect cells), cells)
  | 0, _ => rfl
  | k + 1, cells => by
    simp only [readK, readOnce_good h, readK_good h k cells, List.replicate_succ]

end EinoV.C17
