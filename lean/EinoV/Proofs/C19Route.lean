/-
  C19 — lemmas about the copy-routing model (Model/C19Route.lean): with the closing facts every
  reader derived from a Workflow node's output is consumed or closed, whatever the successors'
  own data inputs are; without the fallback for a target that has no data predecessor the copy
  of a selected data-less branch end is dropped.
-/
import EinoV.Model.C19Route
import EinoV.Gen.FactsC19

namespace EinoV.C19.Route
open EinoV.Gen

/-- the facts read from the source on this run -/
def srcFacts : Facts :=
  { missing := Missing.ofFact FactsC19.missingDpsArm,
    closesNonData := FactsC19.closesNonDataValues,
    skippedCloses := FactsC19.skippedChannelClosesValues,
    skipReleasesStored := FactsC19.skipReleasesStored,
    closesSurplus := FactsC19.closesSurplus,
    closesReplaced := FactsC19.closesReplaced }

/-- the fact values under which nothing is dropped -/
def Facts.closing (f : Facts) : Prop :=
  f.missing = .emptySet ∧ f.closesNonData = true ∧ f.skippedCloses = true ∧
  f.closesSurplus = true ∧ f.closesReplaced = true ∧ f.skipReleasesStored = true

instance (f : Facts) : Decidable f.closing := by unfold Facts.closing; infer_instance

theorem routeCopy_ne_dropped {f : Facts} (hf : f.closing) (dps : Option (List String))
    (sender : String) (skip : SkipTime) (consumer : Fate) (hc : consumer ≠ .dropped) :
    routeCopy f dps sender skip consumer ≠ .dropped := by
  obtain ⟨hm, h1, h2, _, _, h5⟩ := hf
  unfold routeCopy
  cases dps with
  | none => simp [hm, h1]
  | some ds =>
    by_cases hs : sender ∈ ds
    · cases skip <;> simp [hs, h2, h5, hc, skipFate]
    · simp [hs, h1]

theorem routeCopy_skipTarget {f : Facts} (hm : f.missing = .skipTarget) (sender : String)
    (skip : SkipTime) (consumer : Fate) : routeCopy f none sender skip consumer = .dropped := by
  simp [routeCopy, hm]

theorem endFate_ne_dropped (k : Option Nat) : endFate k ≠ .dropped := by
  cases k <;> simp [endFate]

theorem condFate_ne_dropped (k : Cond) : condFate k ≠ .dropped := by
  cases k <;> simp [condFate]

theorem entries_consumer (c : Case) : ∀ e ∈ entries c, e.consumer ≠ .dropped := by
  intro e he
  simp only [entries, selectedEntries, writeToEntries, List.mem_append, List.mem_map] at he
  rcases he with ⟨s, _, rfl⟩ | ⟨s, _, rfl⟩ | he
  · simp
  · simp
  · by_cases hd : c.endData = true
    · simp only [hd, ↓reduceIte, List.mem_singleton] at he
      subst he
      exact endFate_ne_dropped _
    · simp [hd] at he

theorem entryFate_ne_dropped {f : Facts} (hf : f.closing) (e : Entry) (hc : e.consumer ≠ .dropped) :
    entryFate f e ≠ .dropped := by
  unfold entryFate
  by_cases hr : e.replaced = true
  · simp [hr, hf.2.2.2.2.1]
  · simp only [hr]
    exact routeCopy_ne_dropped hf _ _ _ _ hc

theorem fates_ne_dropped {f : Facts} (hf : f.closing) (c : Case) : ∀ x ∈ fates f c, x ≠ .dropped := by
  intro x hx
  simp only [fates, List.mem_append, List.mem_replicate, List.mem_map] at hx
  rcases hx with (⟨_, rfl⟩ | ⟨e, he, rfl⟩) | ⟨_, rfl⟩
  · exact condFate_ne_dropped _
  · exact entryFate_ne_dropped hf e (entries_consumer c e he)
  · simp [hf.2.2.2.1]

theorem mustRelease_of_closing {f : Facts} (hf : f.closing) (c : Case) : mustRelease f c = true := by
  have h : (fates f c).all (fun x => !x.isDropped) = true := by
    rw [List.all_eq_true]
    intro x hx
    have := fates_ne_dropped hf c x hx
    cases x <;> simp_all [Fate.isDropped]
  simp [mustRelease, h]

/-- no branch, no selected entry -/
theorem selectedEntries_nil (c : Case) (h : hasBranch c = false) : selectedEntries c = [] := by
  simp [selectedEntries, isSelected, h]

/-- `created` is what `distribute` computes for the task's counts, and covers every consumer -/
theorem created_ge (c : Case) : nBranches c + (entries c).length ≤ created c := by
  have hl : (entries c).length = (selectedEntries c).length + (writeToEntries c).length := by
    simp [entries]
  by_cases hb : hasBranch c = true
  · simp only [created, nBranches, hb, ↓reduceIte, hl, copyCount]
    split <;> split <;> (try split) <;> omega
  · have hb' : hasBranch c = false := by simpa using hb
    have hs := selectedEntries_nil c hb'
    simp only [created, nBranches, hb', hl, hs, List.length_nil, copyCount]
    split <;> split <;> (try split) <;> simp_all <;> omega

theorem fates_length (f : Facts) (c : Case) : (fates f c).length = created c := by
  have := created_ge c
  simp only [fates, List.length_append, List.length_replicate, List.length_map]
  omega

theorem created_eq_ledger (cs cr : Bool) (c : Case) (dups : Nat) :
    created c = (distribute cs cr (writeToEntries c).length (nBranches c)
      (selectedEntries c).length dups).created := by
  have hl : (entries c).length = (selectedEntries c).length + (writeToEntries c).length := by
    simp [entries]
  simp only [created, distribute, hl]
  split <;> rfl

/-! ### the cross family -/

theorem xEntries_consumer (c : XCase) : ∀ e ∈ xEntries c, e.consumer ≠ .dropped := by
  intro e he
  simp only [xEntries, List.mem_append, List.mem_map] at he
  rcases he with ⟨s, _, rfl⟩ | he
  · by_cases hd : s.drains = true
    · simp [hd]
    · simp only [hd]
      exact endFate_ne_dropped _
  · by_cases hd : c.endData = true
    · simp only [hd, ↓reduceIte, List.mem_singleton] at he
      subst he
      exact endFate_ne_dropped _
    · simp [hd] at he

theorem xEntryFate_ne_dropped {f : Facts} (hf : f.closing) (e : Entry) (hc : e.consumer ≠ .dropped) :
    xEntryFate f e ≠ .dropped := by
  unfold xEntryFate
  by_cases hr : e.replaced = true
  · simp [hr, hf.2.2.2.2.1]
  · simp only [hr]
    exact routeCopy_ne_dropped hf _ _ _ _ hc

theorem xFates_ne_dropped {f : Facts} (hf : f.closing) (c : XCase) : ∀ x ∈ xFates f c, x ≠ .dropped := by
  intro x hx
  simp only [xFates, List.mem_append, List.mem_replicate, List.mem_map] at hx
  rcases hx with ⟨e, he, rfl⟩ | ⟨_, rfl⟩
  · exact xEntryFate_ne_dropped hf e (xEntries_consumer c e he)
  · simp [hf.2.2.2.1]

theorem xMustRelease_of_closing {f : Facts} (hf : f.closing) (c : XCase) : xMustRelease f c = true := by
  have h : (xFates f c).all (fun x => !x.isDropped) = true := by
    rw [List.all_eq_true]
    intro x hx
    have := xFates_ne_dropped hf c x hx
    cases x <;> simp_all [Fate.isDropped]
  simp [xMustRelease, h]

theorem xFates_length (f : Facts) (c : XCase) : (xFates f c).length = xCreated c := by
  have : (xEntries c).length ≤ xCreated c := by
    simp only [xCreated, copyCount]; split <;> omega
  simp only [xFates, List.length_append, List.length_replicate, List.length_map]
  omega

/-- `A` has no branch: the ledger with `B = 0`, `sel = 0` -/
theorem xCreated_eq_ledger (cs cr : Bool) (c : XCase) :
    xCreated c = (distribute cs cr (xEntries c).length 0 0 0).created := by
  simp only [xCreated, distribute]
  generalize (xEntries c).length = W
  by_cases hW : W = 0
  · subst hW; rfl
  · have h1 : ¬ (0 + W = 0) := by omega
    have h3 : 1 ≤ copyCount W := by simp only [copyCount]; split <;> omega
    have h4 : copyCount 1 = 1 := rfl
    have h2' : 0 + W + 1 - W = 1 := by omega
    simp only [h1, ↓reduceIte, Nat.mul_zero, Nat.add_zero, h2', h4]
    omega

end EinoV.C19.Route
