/-
  Engine homomorphism: if a map `h : A → B` between two value types commutes with every node
  function, every branch condition and the fan-in merge (on the values satisfying an invariant
  `P` that the node functions and the merge preserve), then it commutes with whole runs of the
  engine: `runS opsB (r.mapNodes tn) sB (h x) = (runS opsA r sA x).mapO h` — results, errors
  and per-step traces.  Instantiated in EinoV/Props/C04.lean with A = chunk lists (stream
  mode), B = values (value mode), h = concatenation.
  The node / branch hypotheses are only required for the nodes of the runner at hand
  (`Runner.Has`: its start node and the members of `r.nodes`) and for the branches of those
  nodes; the fan-in hypothesis (`FanInOK`) only for the merges the engine performs (two or
  more values) and, for the zero value, only in all-predecessor mode.  `run_hom_on` /
  `run_keeps_on` are the relativised statements, `run_hom` the all-quantified corollary.
  Helper lemmas only; the property statements are in EinoV/Props/C04.lean.
-/
import EinoV.Model.Engine
import EinoV.Proofs.Assoc

namespace EinoV.Engine
variable {A B : Type}

/-! ### translating a runner along a value map -/

/-- a branch of the B-side runner corresponds to `b`: same ends, condition commutes with `h` -/
structure BranchOK (h : A → B) (P : A → Prop) (b : Branch A) (b' : Branch B) : Prop where
  ends : b'.ends = b.ends
  noData : b'.noData = b.noData
  cond : ∀ a, P a → b'.cond (h a) = b.cond a

/-- a node of the B-side runner corresponds to `n`: same wiring, function commutes with `h`
    on the values satisfying the invariant `P` -/
structure NodeOK (h : A → B) (P : A → Prop) (tb : Branch A → Branch B) (n : Node A) (n' : Node B) : Prop where
  key : n'.key = n.key
  writeTo : n'.writeTo = n.writeTo
  controls : n'.controls = n.controls
  branches : n'.branches = n.branches.map tb
  act : ∀ a, P a → n'.act (h a) = (n.act a).map h
  keeps : ∀ a a', P a → n.act a = .ok a' → P a'

def Runner.mapNodes (r : Runner A) (tn : Node A → Node B) : Runner B :=
  { nodes := r.nodes.map tn, start := tn r.start, dataPreds := r.dataPreds, ctrlPreds := r.ctrlPreds,
    maxSteps := r.maxSteps, dag := r.dag, eager := r.eager }

structure OpsOK (h : A → B) (P : A → Prop) (oA : ValOps A) (oB : ValOps B) : Prop where
  merge : ∀ l, (∀ a ∈ l, P a) → oB.merge (l.map h) = (oA.merge l).map h
  mergeKeeps : ∀ l m, (∀ a ∈ l, P a) → oA.merge l = some m → P m
  zero : h oA.zero = oB.zero

/-- what the engine really needs of the two fan-ins: `merge` is only called with two or more
    values (`collect`), the zero value is only handed out in all-predecessor mode -/
structure FanInOK (dag : Bool) (h : A → B) (P : A → Prop) (oA : ValOps A) (oB : ValOps B) : Prop where
  merge : ∀ l, 2 ≤ l.length → (∀ a ∈ l, P a) → oB.merge (l.map h) = (oA.merge l).map h
  mergeKeeps : ∀ l m, 2 ≤ l.length → (∀ a ∈ l, P a) → oA.merge l = some m → P m
  zero : dag = true → P oA.zero ∧ h oA.zero = oB.zero

theorem OpsOK.fanIn {h : A → B} {P : A → Prop} {oA : ValOps A} {oB : ValOps B} (hops : OpsOK h P oA oB)
    (dag : Bool) (hz : dag = true → P oA.zero) : FanInOK dag h P oA oB where
  merge := fun l _ hl => hops.merge l hl
  mergeKeeps := fun l m _ hl hm => hops.mergeKeeps l m hl hm
  zero := fun hd => ⟨hz hd, hops.zero⟩

/-- the nodes a run of `r` can reach: the start node and the members of `r.nodes` -/
def Runner.Has (r : Runner A) (n : Node A) : Prop := n = r.start ∨ n ∈ r.nodes

theorem Runner.has_of_node? (r : Runner A) (k : Key) (n : Node A) (hn : r.node? k = some n) : r.Has n :=
  Or.inr (List.mem_of_find?_eq_some hn)

theorem Runner.has_of_call? (r : Runner A) (k : Key) (n : Node A) (hn : r.call? k = some n) : r.Has n := by
  unfold Runner.call? at hn
  split at hn
  · injection hn with hn; exact Or.inl hn.symm
  · exact r.has_of_node? k n hn

def Chan.mapV (h : A → B) (c : Chan A) : Chan B :=
  { values := c.values.map (fun kv => (kv.1, h kv.2)), ctrl := c.ctrl, data := c.data, skipped := c.skipped }

def mapCM (h : A → B) (cm : Chans A) : Chans B := cm.map (fun p => (p.1, p.2.mapV h))

theorem alookup_map {α β} (f : α → β) (k : Key) (l : List (Key × α)) :
    alookup k (l.map (fun p => (p.1, f p.2))) = (alookup k l).map f := by
  induction l with
  | nil => rfl
  | cons p t ih =>
    obtain ⟨k', v⟩ := p
    by_cases hk : (k' == k) = true <;> simp [alookup, hk, ih]

theorem aset_map {α β} (f : α → β) (k : Key) (v : α) (l : List (Key × α)) :
    aset k (f v) (l.map (fun p => (p.1, f p.2))) = (aset k v l).map (fun p => (p.1, f p.2)) := by
  induction l with
  | nil => rfl
  | cons p t ih =>
    obtain ⟨k', v'⟩ := p
    by_cases hk : (k' == k) = true <;> simp [aset, hk, ih]

/-! ### skips do not look at values -/

def skipKey {V} (c : Chan V) (k : Key) : Chan V :=
  let c := if (alookup k c.ctrl).isSome then { c with ctrl := aset k Dep.skipped c.ctrl } else c
  if (alookup k c.data).isSome then { c with data := aset k true c.data } else c

theorem reportSkip_eq {V} (c : Chan V) (keys : List Key) :
    c.reportSkip true keys =
      ({ (keys.foldl skipKey c) with skipped := (keys.foldl skipKey c).ctrl.all (fun p => p.2 == Dep.skipped) },
       (keys.foldl skipKey c).ctrl.all (fun p => p.2 == Dep.skipped)) := rfl

theorem skipKey_mapV (h : A → B) (c : Chan A) (k : Key) : skipKey (c.mapV h) k = (skipKey c k).mapV h := by
  unfold skipKey Chan.mapV
  by_cases h1 : (alookup k c.ctrl).isSome = true <;> by_cases h2 : (alookup k c.data).isSome = true <;>
    simp [h1, h2]

theorem foldl_skipKey_mapV (h : A → B) (keys : List Key) (c : Chan A) :
    keys.foldl skipKey (c.mapV h) = (keys.foldl skipKey c).mapV h := by
  induction keys generalizing c with
  | nil => rfl
  | cons k rest ih => simp only [List.foldl_cons, skipKey_mapV, ih]

theorem reportSkip_mapV (h : A → B) (dag : Bool) (c : Chan A) (keys : List Key) :
    (c.mapV h).reportSkip dag keys = ((c.reportSkip dag keys).1.mapV h, (c.reportSkip dag keys).2) := by
  cases dag with
  | false => rfl
  | true =>
    rw [reportSkip_eq, reportSkip_eq, foldl_skipKey_mapV]
    rfl


theorem modChan_mapCM (h : A → B) (cm : Chans A) (k : Key) (f : Chan A → Chan A) (g : Chan B → Chan B)
    (hfg : ∀ c, g (c.mapV h) = (f c).mapV h) :
    modChan (mapCM h cm) k g = mapCM h (modChan cm k f) := by
  unfold modChan mapCM
  rw [List.map_map, List.map_map]
  apply List.map_congr_left
  intro p _
  simp only [Function.comp]
  by_cases hk : (p.1 == k) = true <;> simp [hk, hfg]

theorem alookup_mapCM (h : A → B) (cm : Chans A) (k : Key) :
    alookup k (mapCM h cm) = (alookup k cm).map (Chan.mapV h) := by
  unfold mapCM; exact alookup_map (Chan.mapV h) k cm

theorem skipOne_mapCM (h : A → B) (dag : Bool) (cm : Chans A) (k f : Key) :
    skipOne dag (mapCM h cm) k f = (mapCM h (skipOne dag cm k f).1, (skipOne dag cm k f).2) := by
  unfold skipOne
  cases dag with
  | false => rfl
  | true =>
    simp only [Bool.not_true, Bool.false_eq_true, ↓reduceIte, alookup_mapCM]
    cases hl : alookup k cm with
    | none => rfl
    | some c =>
      simp only [Option.map_some, reportSkip_mapV]
      have hsk : (c.mapV h).skipped = c.skipped := rfl
      rw [hsk, modChan_mapCM h cm k (fun _ => (c.reportSkip true [f]).1) (fun _ => ((c.reportSkip true [f]).1).mapV h) (fun _ => rfl)]

theorem skipStep_mapCM (h : A → B) (dag : Bool) (f : Key) (acc : Chans A × List Key) (s : Key) :
    skipStep dag f (mapCM h acc.1, acc.2) s = (mapCM h (skipStep dag f acc s).1, (skipStep dag f acc s).2) := by
  unfold skipStep
  simp only [skipOne_mapCM]

theorem foldl_skipStep_mapCM (h : A → B) (dag : Bool) (f : Key) (l : List Key) (acc : Chans A × List Key) :
    l.foldl (skipStep dag f) (mapCM h acc.1, acc.2)
      = (mapCM h (l.foldl (skipStep dag f) acc).1, (l.foldl (skipStep dag f) acc).2) := by
  induction l generalizing acc with
  | nil => rfl
  | cons a t ih => simp only [List.foldl_cons, skipStep_mapCM, ih]


/-! ### the translated runner has the same wiring -/

theorem find?_map_key (tn : Node A → Node B) (l : List (Node A)) (hk : ∀ n ∈ l, (tn n).key = n.key) (k : Key) :
    (l.map tn).find? (·.key == k) = (l.find? (·.key == k)).map tn := by
  induction l with
  | nil => rfl
  | cons n t ih =>
    have ih' := ih (fun m hm => hk m (by simp [hm]))
    simp only [List.map_cons, List.find?_cons, hk n (by simp)]
    by_cases hkk : (n.key == k) = true <;> simp [hkk, ih']

theorem flatMap_ends_map (tb : Branch A → Branch B) (l : List (Branch A)) (hl : ∀ b ∈ l, (tb b).ends = b.ends) :
    (l.map tb).flatMap (·.ends) = l.flatMap (·.ends) := by
  induction l with
  | nil => rfl
  | cons b t ih =>
    simp [List.flatMap_cons, hl b (by simp), ih (fun c hc => hl c (by simp [hc]))]

section
variable (h : A → B) (P : A → Prop) (tb : Branch A → Branch B) (tn : Node A → Node B) (r : Runner A)
variable (htb : ∀ n, r.Has n → ∀ b ∈ n.branches, BranchOK h P b (tb b)) (htn : ∀ n, r.Has n → NodeOK h P tb n (tn n))
include htb htn

omit htb in
theorem node?_mapNodes (k : Key) :
    (r.mapNodes tn).node? k = (r.node? k).map tn :=
  find?_map_key tn r.nodes (fun n hn => (htn n (Or.inr hn)).key) k

omit htb in
theorem call?_mapNodes (k : Key) :
    (r.mapNodes tn).call? k = (r.call? k).map tn := by
  unfold Runner.call?
  by_cases hk : (k == START) = true
  · simp [hk, Runner.mapNodes]
  · simp only [hk, Bool.false_eq_true, ↓reduceIte]
    exact node?_mapNodes h P tb tn r htn k

theorem successors_tn (n : Node A) (hn : r.Has n) : (tn n).successors = n.successors := by
  unfold Node.successors
  rw [(htn n hn).writeTo, (htn n hn).controls, (htn n hn).branches,
    flatMap_ends_map tb n.branches (fun b hb => (htb n hn b hb).ends)]

theorem propagateSkips_mapCM (fuel : Nat) (cm : Chans A) (ks : List Key) :
    propagateSkips (r.mapNodes tn) fuel (mapCM h cm) ks = (propagateSkips r fuel cm ks).map (mapCM h) := by
  induction fuel generalizing cm ks with
  | zero => rfl
  | succ n ih =>
    cases ks with
    | nil => rfl
    | cons k rest =>
      simp only [propagateSkips, node?_mapNodes h P tb tn r htn]
      cases hn : r.node? k with
      | none => rfl
      | some nd =>
        simp only [Option.map_some, successors_tn h P tb tn r htb htn nd (r.has_of_node? k nd hn)]
        have : (r.mapNodes tn).dag = r.dag := rfl
        rw [this, foldl_skipStep_mapCM h r.dag k nd.successors (cm, [])]
        exact ih _ _

theorem reportBranch_mapCM (cm : Chans A) (f : Key) (sk : List Key) :
    reportBranch (r.mapNodes tn) (mapCM h cm) f sk = (reportBranch r cm f sk).map (mapCM h) := by
  unfold reportBranch
  have hd : (r.mapNodes tn).dag = r.dag := rfl
  have hl : (r.mapNodes tn).nodes.length = r.nodes.length := by simp [Runner.mapNodes]
  rw [hd, hl, foldl_skipStep_mapCM h r.dag f sk (cm, [])]
  exact propagateSkips_mapCM h P tb tn r htb htn _ _ _

end


/-! ### resolving finished tasks -/

def ChanP (P : A → Prop) (c : Chan A) : Prop := ∀ kv ∈ c.values, P kv.2
def ValsP (P : A → Prop) (cm : Chans A) : Prop := ∀ p ∈ cm, ChanP P p.2
def ListP (P : A → Prop) (l : List (Key × A)) : Prop := ∀ kv ∈ l, P kv.2
def WritesP (P : A → Prop) (ws : List (Key × List (Key × A))) : Prop := ∀ w ∈ ws, ListP P w.2

def mapL (h : A → B) (l : List (Key × A)) : List (Key × B) := l.map (fun kv => (kv.1, h kv.2))
def mapW (h : A → B) (ws : List (Key × List (Key × A))) : List (Key × List (Key × B)) :=
  ws.map (fun p => (p.1, mapL h p.2))

theorem addWrite_mapW (h : A → B) (ws : List (Key × List (Key × A))) (to f : Key) (v : A) :
    addWrite (mapW h ws) to f (h v) = mapW h (addWrite ws to f v) := by
  unfold addWrite mapW
  rw [alookup_map (mapL h) to ws]
  have : aset f (h v) ((Option.map (mapL h) (alookup to ws)).getD []) = mapL h (aset f v ((alookup to ws).getD [])) := by
    cases alookup to ws with
    | none => rfl
    | some l => exact aset_map h f v l
  rw [this]
  exact aset_map (mapL h) to _ ws

theorem foldl_addWrite_mapW (h : A → B) (tg : List Key) (f : Key) (v : A) (ws : List (Key × List (Key × A))) :
    tg.foldl (fun ws k => addWrite ws k f (h v)) (mapW h ws)
      = mapW h (tg.foldl (fun ws k => addWrite ws k f v) ws) := by
  induction tg generalizing ws with
  | nil => rfl
  | cons k rest ih => simp only [List.foldl_cons, addWrite_mapW, ih]

def Resolved.mapR (h : A → B) (x : Resolved A) : Resolved B :=
  { cm := mapCM h x.cm, writes := mapW h x.writes, deps := x.deps }

theorem mapM_cond_map (h : A → B) (P : A → Prop) (tb : Branch A → Branch B) (l : List (Branch A))
    (hl : ∀ b ∈ l, BranchOK h P b (tb b)) (a : A) (ha : P a) :
    (l.map tb).mapM (fun b => do
        let ws ← b.cond (h a)
        if ws.all b.ends.contains then pure ws else throw ({ cls := .badBranchEnd } : Err))
      = l.mapM (fun b => do
        let ws ← b.cond a
        if ws.all b.ends.contains then pure ws else throw ({ cls := .badBranchEnd } : Err)) := by
  induction l with
  | nil => rfl
  | cons b t ih =>
    simp only [List.map_cons, List.mapM_cons, (hl b (by simp)).cond a ha, (hl b (by simp)).ends,
      ih (fun c hc => hl c (by simp [hc]))]

section
variable (h : A → B) (P : A → Prop) (tb : Branch A → Branch B) (tn : Node A → Node B) (r : Runner A)
variable (htb : ∀ n, r.Has n → ∀ b ∈ n.branches, BranchOK h P b (tb b)) (htn : ∀ n, r.Has n → NodeOK h P tb n (tn n))
include htb htn

theorem selectOf_tn (n : Node A) (hn : r.Has n) (a : A) (ha : P a) : selectOf (tn n) (h a) = selectOf n a := by
  unfold selectOf
  rw [(htn n hn).branches, mapM_cond_map h P tb n.branches (htb n hn) a ha]

theorem skippedOf_tn (n : Node A) (hn : r.Has n) (sel : List Key) : skippedOf (tn n) sel = skippedOf n sel := by
  unfold skippedOf
  rw [(htn n hn).branches, (htn n hn).controls,
    flatMap_ends_map tb n.branches (fun b hb => (htb n hn b hb).ends)]

theorem calcBranch_hom (cm : Chans A) (n : Node A) (hn : r.Has n) (a : A) (ha : P a) :
    calcBranch (r.mapNodes tn) (mapCM h cm) (tn n) (h a)
      = (calcBranch r cm n a).map (fun x => (mapCM h x.1, x.2)) := by
  unfold calcBranch
  rw [selectOf_tn h P tb tn r htb htn n hn a ha]
  cases hs : selectOf n a with
  | error e => rfl
  | ok sel =>
    simp only [bind, Except.bind, skippedOf_tn h P tb tn r htb htn n hn, (htn n hn).key,
      reportBranch_mapCM h P tb tn r htb htn]
    cases reportBranch r cm n.key (skippedOf n sel) <;> rfl

theorem resolveStep_hom (acc : Resolved A) (t : Done A) (ht : P t.2) :
    resolveStep (r.mapNodes tn) (acc.mapR h) (t.1, h t.2) = (resolveStep r acc t).map (Resolved.mapR h) := by
  unfold resolveStep
  simp only [call?_mapNodes h P tb tn r htn]
  cases hc : r.call? t.1 with
  | none => rfl
  | some n =>
    have hn : r.Has n := r.has_of_call? t.1 n hc
    simp only [Option.map_some, Resolved.mapR, calcBranch_hom h P tb tn r htb htn acc.cm n hn t.2 ht]
    cases hb : calcBranch r acc.cm n t.2 with
    | error e => rfl
    | ok x =>
      obtain ⟨cm', sel⟩ := x
      simp only [Except.map, bind, Except.bind, pure, Except.pure, (htn n hn).writeTo, (htn n hn).controls,
        foldl_addWrite_mapW, Resolved.mapR]

theorem foldlM_resolveStep_hom (done : List (Done A)) (hd : ListP P done) (acc : Resolved A) :
    (done.map (fun d => (d.1, h d.2))).foldlM (resolveStep (r.mapNodes tn)) (acc.mapR h)
      = (done.foldlM (resolveStep r) acc).map (Resolved.mapR h) := by
  induction done generalizing acc with
  | nil => rfl
  | cons d rest ih =>
    simp only [List.map_cons, List.foldlM_cons]
    rw [resolveStep_hom h P tb tn r htb htn acc d (hd d (by simp))]
    cases resolveStep r acc d with
    | error e => rfl
    | ok acc' => simp only [Except.map, bind, Except.bind]; exact ih (fun x hx => hd x (by simp [hx])) acc'

theorem resolve_hom (cm : Chans A) (done : List (Done A)) (hd : ListP P done) :
    resolve (r.mapNodes tn) (mapCM h cm) (done.map (fun d => (d.1, h d.2)))
      = (resolve r cm done).map (Resolved.mapR h) :=
  foldlM_resolveStep_hom h P tb tn r htb htn done hd { cm := cm, writes := [], deps := [] }

end


/-! ### channel updates -/

def valueKey {V} (c : Chan V) (kv : Key × V) : Chan V :=
  if (alookup kv.1 c.data).isSome then
    { c with data := aset kv.1 true c.data, values := aset kv.1 kv.2 c.values }
  else c

def valueKeyP {V} (c : Chan V) (kv : Key × V) : Chan V := { c with values := aset kv.1 kv.2 c.values }

theorem reportValues_eq {V} (dag : Bool) (c : Chan V) (ins : List (Key × V)) :
    c.reportValues dag ins =
      if dag then (if c.skipped then c else ins.foldl valueKey c) else ins.foldl valueKeyP c := rfl

theorem valueKey_mapV (h : A → B) (c : Chan A) (kv : Key × A) :
    valueKey (c.mapV h) (kv.1, h kv.2) = (valueKey c kv).mapV h := by
  unfold valueKey Chan.mapV
  by_cases h1 : (alookup kv.1 c.data).isSome = true <;> simp [h1, aset_map h]

theorem valueKeyP_mapV (h : A → B) (c : Chan A) (kv : Key × A) :
    valueKeyP (c.mapV h) (kv.1, h kv.2) = (valueKeyP c kv).mapV h := by
  simp [valueKeyP, Chan.mapV, aset_map h]

theorem foldl_valueKey_mapV (h : A → B) (ins : List (Key × A)) (c : Chan A) :
    (mapL h ins).foldl valueKey (c.mapV h) = (ins.foldl valueKey c).mapV h := by
  induction ins generalizing c with
  | nil => rfl
  | cons kv rest ih => simp only [mapL, List.map_cons, List.foldl_cons, valueKey_mapV]; exact ih _

theorem foldl_valueKeyP_mapV (h : A → B) (ins : List (Key × A)) (c : Chan A) :
    (mapL h ins).foldl valueKeyP (c.mapV h) = (ins.foldl valueKeyP c).mapV h := by
  induction ins generalizing c with
  | nil => rfl
  | cons kv rest ih => simp only [mapL, List.map_cons, List.foldl_cons, valueKeyP_mapV]; exact ih _

theorem reportValues_mapV (h : A → B) (dag : Bool) (c : Chan A) (ins : List (Key × A)) :
    (c.mapV h).reportValues dag (mapL h ins) = (c.reportValues dag ins).mapV h := by
  rw [reportValues_eq, reportValues_eq]
  cases dag with
  | false => simp [foldl_valueKeyP_mapV]
  | true =>
    simp only [↓reduceIte]
    by_cases hs : c.skipped = true
    · simp [hs, Chan.mapV]
    · have : (c.mapV h).skipped = c.skipped := rfl
      simp [hs, this, foldl_valueKey_mapV]

theorem filter_mapL (h : A → B) (l : List (Key × A)) (p : Key → Bool) :
    (mapL h l).filter (fun kv => p kv.1) = mapL h (l.filter (fun kv => p kv.1)) := by
  unfold mapL
  induction l with
  | nil => rfl
  | cons a t ih => by_cases hp : p a.1 = true <;> simp [List.filter_cons, hp, ih]

theorem updateValues_hom (h : A → B) (tn : Node A → Node B) (r : Runner A) (cm : Chans A)
    (ws : List (Key × List (Key × A))) :
    updateValues (r.mapNodes tn) (mapCM h cm) (mapW h ws) = mapCM h (updateValues r cm ws) := by
  unfold updateValues
  induction ws generalizing cm with
  | nil => rfl
  | cons w rest ih =>
    simp only [mapW, List.map_cons, List.foldl_cons]
    have hd : (r.mapNodes tn).dag = r.dag := rfl
    have hp : (r.mapNodes tn).dataPreds = r.dataPreds := rfl
    rw [hd, hp]
    rw [modChan_mapCM h cm w.1
        (fun c => c.reportValues r.dag (w.2.filter (fun kv => (lookupList w.1 r.dataPreds).contains kv.1)))
        (fun c => c.reportValues r.dag ((mapL h w.2).filter (fun kv => (lookupList w.1 r.dataPreds).contains kv.1)))
        (by intro c; rw [filter_mapL h w.2 (fun k => (lookupList w.1 r.dataPreds).contains k), reportValues_mapV])]
    exact ih _

def depKey {V} (c : Chan V) (k : Key) : Chan V :=
  if (alookup k c.ctrl).isSome then { c with ctrl := aset k Dep.ready c.ctrl } else c

theorem reportDeps_eq {V} (dag : Bool) (c : Chan V) (deps : List Key) :
    c.reportDeps dag deps = if dag then (if c.skipped then c else deps.foldl depKey c) else c := rfl

theorem depKey_mapV (h : A → B) (c : Chan A) (k : Key) : depKey (c.mapV h) k = (depKey c k).mapV h := by
  unfold depKey Chan.mapV
  by_cases h1 : (alookup k c.ctrl).isSome = true <;> simp [h1]

theorem foldl_depKey_mapV (h : A → B) (deps : List Key) (c : Chan A) :
    deps.foldl depKey (c.mapV h) = (deps.foldl depKey c).mapV h := by
  induction deps generalizing c with
  | nil => rfl
  | cons k rest ih => simp only [List.foldl_cons, depKey_mapV]; exact ih _

theorem reportDeps_mapV (h : A → B) (dag : Bool) (c : Chan A) (deps : List Key) :
    (c.mapV h).reportDeps dag deps = (c.reportDeps dag deps).mapV h := by
  rw [reportDeps_eq, reportDeps_eq]
  cases dag with
  | false => rfl
  | true =>
    simp only [↓reduceIte]
    by_cases hs : c.skipped = true
    · simp [hs, Chan.mapV]
    · have : (c.mapV h).skipped = c.skipped := rfl
      simp [hs, this, foldl_depKey_mapV]

theorem updateDeps_hom (h : A → B) (tn : Node A → Node B) (r : Runner A) (cm : Chans A)
    (ds : List (Key × List Key)) :
    updateDeps (r.mapNodes tn) (mapCM h cm) ds = mapCM h (updateDeps r cm ds) := by
  unfold updateDeps
  induction ds generalizing cm with
  | nil => rfl
  | cons d rest ih =>
    simp only [List.foldl_cons]
    have hd : (r.mapNodes tn).dag = r.dag := rfl
    have hp : (r.mapNodes tn).ctrlPreds = r.ctrlPreds := rfl
    rw [hd, hp]
    rw [modChan_mapCM h cm d.1
        (fun c => c.reportDeps r.dag (d.2.filter (lookupList d.1 r.ctrlPreds).contains))
        (fun c => c.reportDeps r.dag (d.2.filter (lookupList d.1 r.ctrlPreds).contains))
        (by intro c; rw [reportDeps_mapV])]
    exact ih _

/-! ### the invariant: every value held in a channel satisfies `P` -/

theorem mem_aset {α} (k : Key) (v : α) (l : List (Key × α)) (x : Key × α) (hx : x ∈ aset k v l) :
    x = (k, v) ∨ x ∈ l := by
  induction l with
  | nil => simp [aset] at hx; exact Or.inl hx
  | cons p t ih =>
    obtain ⟨k', v'⟩ := p
    by_cases hk : (k' == k) = true
    · simp only [aset, hk, ↓reduceIte, List.mem_cons] at hx
      rcases hx with rfl | hx
      · exact Or.inl rfl
      · exact Or.inr (by simp [hx])
    · simp only [aset, hk, Bool.false_eq_true, ↓reduceIte, List.mem_cons] at hx
      rcases hx with rfl | hx
      · exact Or.inr (by simp)
      · rcases ih hx with h1 | h1
        · exact Or.inl h1
        · exact Or.inr (by simp [h1])

def GetResult.mapG (h : A → B) : GetResult A → GetResult B
  | .notReady => .notReady
  | .ready v => .ready (h v)
  | .mergeErr => .mergeErr

section
variable (dag : Bool) (h : A → B) (P : A → Prop) (oA : ValOps A) (oB : ValOps B) (hops : FanInOK dag h P oA oB)
include hops

theorem collect_hom (l : List A) (hl : ∀ a ∈ l, P a) : collect oB (l.map h) = (collect oA l).mapG h := by
  match l, hl with
  | [], _ => rfl
  | [v], _ => rfl
  | a :: b :: t, hl =>
    simp only [List.map_cons, collect]
    have := hops.merge (a :: b :: t) (by simp) hl
    simp only [List.map_cons] at this
    rw [this]
    cases oA.merge (a :: b :: t) <;> rfl

theorem collect_keeps (l : List A) (hl : ∀ a ∈ l, P a) (v : A) (hv : collect oA l = .ready v) : P v := by
  match l, hl with
  | [], _ => simp [collect] at hv
  | [w], hl => simp [collect] at hv; subst hv; exact hl w (by simp)
  | a :: b :: t, hl =>
    simp only [collect] at hv
    cases hm : oA.merge (a :: b :: t) with
    | none => simp [hm] at hv
    | some m => simp [hm] at hv; subst hv; exact hops.mergeKeeps _ _ (by simp) hl hm

theorem get_hom (c : Chan A) (hc : ChanP P c) :
    (c.mapV h).get oB dag = ((c.get oA dag).1.mapV h, ((c.get oA dag).2).mapG h) := by
  have hvals : ∀ a ∈ c.values.map (·.2), P a := by
    intro a ha; simp only [List.mem_map] at ha; obtain ⟨kv, hkv, rfl⟩ := ha; exact hc kv hkv
  have hmm : (c.mapV h).values.map (·.2) = (c.values.map (·.2)).map h := by
    simp [Chan.mapV, List.map_map, Function.comp]
  have hemp : (c.mapV h).values.isEmpty = c.values.isEmpty := by
    simp [Chan.mapV]
  unfold Chan.get
  cases dag with
  | true =>
    have ht : (c.mapV h).triggered = c.triggered := rfl
    simp only [↓reduceIte, ht]
    by_cases htr : c.triggered = true
    · simp only [htr, ↓reduceIte, hemp, hmm]
      by_cases he : c.values.isEmpty = true
      · simp [he, GetResult.mapG, (hops.zero rfl).2, Chan.reset, Chan.mapV]
      · simp only [he, Bool.false_eq_true, ↓reduceIte, collect_hom true h P oA oB hops _ hvals]
        simp [Chan.reset, Chan.mapV]
    · simp [htr, GetResult.mapG]
  | false =>
    simp only [Bool.false_eq_true, ↓reduceIte, hemp, hmm]
    by_cases he : c.values.isEmpty = true
    · simp [he, GetResult.mapG]
    · simp only [he, Bool.false_eq_true, ↓reduceIte, collect_hom false h P oA oB hops _ hvals]
      simp [Chan.mapV]

theorem get_keeps (c : Chan A) (hc : ChanP P c) (v : A)
    (hv : (c.get oA dag).2 = .ready v) : P v := by
  have hvals : ∀ a ∈ c.values.map (·.2), P a := by
    intro a ha; simp only [List.mem_map] at ha; obtain ⟨kv, hkv, rfl⟩ := ha; exact hc kv hkv
  unfold Chan.get at hv
  cases dag with
  | true =>
    simp only [↓reduceIte] at hv
    by_cases htr : c.triggered = true
    · simp only [htr, ↓reduceIte] at hv
      by_cases he : c.values.isEmpty = true
      · simp [he] at hv; subst hv; exact (hops.zero rfl).1
      · simp only [he, Bool.false_eq_true, ↓reduceIte] at hv
        exact collect_keeps true h P oA oB hops _ hvals v hv
    · simp [htr] at hv
  | false =>
    simp only [Bool.false_eq_true, ↓reduceIte] at hv
    by_cases he : c.values.isEmpty = true
    · simp [he] at hv
    · simp only [he, Bool.false_eq_true, ↓reduceIte] at hv
      exact collect_keeps false h P oA oB hops _ hvals v hv

end

theorem get_chanP (P : A → Prop) (oA : ValOps A) (dag : Bool) (c : Chan A) (hc : ChanP P c) :
    ChanP P (c.get oA dag).1 := by
  unfold Chan.get
  cases dag with
  | true =>
    simp only [↓reduceIte]
    by_cases htr : c.triggered = true
    · simp [htr, ChanP, Chan.reset]
    · simpa [htr] using hc
  | false =>
    simp only [Bool.false_eq_true, ↓reduceIte]
    by_cases he : c.values.isEmpty = true
    · simpa [he] using hc
    · simp [he, ChanP]

/-! ### getReady -/

section
variable (dag : Bool) (h : A → B) (P : A → Prop) (oA : ValOps A) (oB : ValOps B) (hops : FanInOK dag h P oA oB)
include hops

theorem getReady_hom (cm : Chans A) (hcm : ValsP P cm) :
    getReady oB dag (mapCM h cm) =
      (mapCM h (getReady oA dag cm).1, mapL h (getReady oA dag cm).2.1, (getReady oA dag cm).2.2) := by
  induction cm with
  | nil => rfl
  | cons p t ih =>
    obtain ⟨k, c⟩ := p
    have hc : ChanP P c := hcm (k, c) (by simp)
    have ht : ValsP P t := fun q hq => hcm q (by simp [hq])
    simp only [mapCM, List.map_cons, getReady]
    have := ih ht
    simp only [mapCM] at this
    rw [this, get_hom dag h P oA oB hops c hc]
    cases hg : (c.get oA dag).2 <;> simp [GetResult.mapG, mapL, mapCM]

theorem getReady_keeps (cm : Chans A) (hcm : ValsP P cm) :
    ValsP P (getReady oA dag cm).1 ∧ ListP P (getReady oA dag cm).2.1 := by
  induction cm with
  | nil => exact ⟨by intro p hp; simp [getReady] at hp, by intro p hp; simp [getReady] at hp⟩
  | cons p t ih =>
    obtain ⟨k, c⟩ := p
    have hc : ChanP P c := hcm (k, c) (by simp)
    have ht : ValsP P t := fun q hq => hcm q (by simp [hq])
    obtain ⟨i1, i2⟩ := ih ht
    have hc' := get_chanP P oA dag c hc
    simp only [getReady]
    cases hg : (c.get oA dag).2 with
    | notReady =>
      refine ⟨?_, i2⟩
      intro q hq; simp only [List.mem_cons] at hq
      rcases hq with rfl | hq
      · exact hc'
      · exact i1 q hq
    | mergeErr =>
      refine ⟨?_, i2⟩
      intro q hq; simp only [List.mem_cons] at hq
      rcases hq with rfl | hq
      · exact hc'
      · exact i1 q hq
    | ready v =>
      refine ⟨?_, ?_⟩
      · intro q hq; simp only [List.mem_cons] at hq
        rcases hq with rfl | hq
        · exact hc'
        · exact i1 q hq
      · intro q hq; simp only [List.mem_cons] at hq
        rcases hq with rfl | hq
        · exact get_keeps dag h P oA oB hops c hc v hg
        · exact i2 q hq

end


/-! ### the invariant through one step -/

theorem alookup_some_mem {α} (k : Key) (l : List (Key × α)) (v : α) (h : alookup k l = some v) :
    ∃ p ∈ l, p.2 = v := by
  induction l with
  | nil => simp [alookup] at h
  | cons p t ih =>
    obtain ⟨k', v'⟩ := p
    by_cases hk : (k' == k) = true
    · simp only [alookup, hk, ↓reduceIte, Option.some.injEq] at h
      exact ⟨(k', v'), by simp, h⟩
    · simp only [alookup, hk, Bool.false_eq_true, ↓reduceIte] at h
      obtain ⟨p, hp, e⟩ := ih h
      exact ⟨p, by simp [hp], e⟩

theorem skipKey_values {V} (c : Chan V) (k : Key) : (skipKey c k).values = c.values := by
  unfold skipKey
  by_cases h1 : (alookup k c.ctrl).isSome = true <;> by_cases h2 : (alookup k c.data).isSome = true <;> simp [h1, h2]

theorem foldl_skipKey_values {V} (keys : List Key) (c : Chan V) : (keys.foldl skipKey c).values = c.values := by
  induction keys generalizing c with
  | nil => rfl
  | cons k rest ih => simp only [List.foldl_cons]; rw [ih, skipKey_values]

theorem reportSkip_values {V} (dag : Bool) (c : Chan V) (keys : List Key) :
    (c.reportSkip dag keys).1.values = c.values := by
  cases dag with
  | false => rfl
  | true =>
    rw [reportSkip_eq]
    exact foldl_skipKey_values keys c

theorem mem_modChan {V} (cm : Chans V) (k : Key) (f : Chan V → Chan V) (q : Key × Chan V)
    (hq : q ∈ modChan cm k f) : q ∈ cm ∨ ∃ p ∈ cm, q = (p.1, f p.2) := by
  unfold modChan at hq
  simp only [List.mem_map] at hq
  obtain ⟨p, hp, rfl⟩ := hq
  by_cases hk : (p.1 == k) = true
  · simp only [hk, ↓reduceIte]; exact Or.inr ⟨p, hp, rfl⟩
  · simp only [hk, Bool.false_eq_true, ↓reduceIte]; exact Or.inl hp

theorem valsP_modChan (P : A → Prop) (cm : Chans A) (k : Key) (f : Chan A → Chan A)
    (hcm : ValsP P cm) (hf : ∀ c, ChanP P c → ChanP P (f c)) : ValsP P (modChan cm k f) := by
  intro q hq
  rcases mem_modChan cm k f q hq with h1 | ⟨p, hp, rfl⟩
  · exact hcm q h1
  · exact hf p.2 (hcm p hp)

theorem valsP_skipOne (P : A → Prop) (dag : Bool) (cm : Chans A) (k f : Key) (hcm : ValsP P cm) :
    ValsP P (skipOne dag cm k f).1 := by
  unfold skipOne
  cases dag with
  | false => exact hcm
  | true =>
    simp only [Bool.not_true, Bool.false_eq_true, ↓reduceIte]
    cases hl : alookup k cm with
    | none => exact hcm
    | some c =>
      simp only
      apply valsP_modChan P cm k _ hcm
      intro c' _
      have hc : ChanP P c := by
        obtain ⟨p, hp, rfl⟩ := alookup_some_mem k cm c hl
        exact hcm p hp
      intro kv hkv
      rw [reportSkip_values] at hkv
      exact hc kv hkv

theorem valsP_foldl_skipStep (P : A → Prop) (dag : Bool) (f : Key) (l : List Key) (acc : Chans A × List Key)
    (hcm : ValsP P acc.1) : ValsP P (l.foldl (skipStep dag f) acc).1 := by
  induction l generalizing acc with
  | nil => exact hcm
  | cons a t ih =>
    simp only [List.foldl_cons]
    apply ih
    unfold skipStep
    exact valsP_skipOne P dag acc.1 a f hcm

theorem valsP_propagateSkips (P : A → Prop) (r : Runner A) (fuel : Nat) (cm : Chans A) (ks : List Key)
    (hcm : ValsP P cm) (cm' : Chans A) (hr : propagateSkips r fuel cm ks = .ok cm') : ValsP P cm' := by
  induction fuel generalizing cm ks with
  | zero => simp [propagateSkips] at hr; subst hr; exact hcm
  | succ n ih =>
    cases ks with
    | nil => simp [propagateSkips] at hr; subst hr; exact hcm
    | cons k rest =>
      simp only [propagateSkips] at hr
      cases hn : r.node? k with
      | none => simp [hn] at hr
      | some nd =>
        simp only [hn] at hr
        exact ih _ _ (valsP_foldl_skipStep P r.dag k nd.successors (cm, []) hcm) hr

theorem valsP_reportBranch (P : A → Prop) (r : Runner A) (cm : Chans A) (f : Key) (sk : List Key)
    (hcm : ValsP P cm) (cm' : Chans A) (hr : reportBranch r cm f sk = .ok cm') : ValsP P cm' := by
  unfold reportBranch at hr
  exact valsP_propagateSkips P r _ _ _ (valsP_foldl_skipStep P r.dag f sk (cm, []) hcm) cm' hr

theorem writesP_addWrite (P : A → Prop) (ws : List (Key × List (Key × A))) (to f : Key) (v : A)
    (hws : WritesP P ws) (hv : P v) : WritesP P (addWrite ws to f v) := by
  unfold addWrite
  intro w hw
  rcases mem_aset to _ ws w hw with rfl | h1
  · intro kv hkv
    rcases mem_aset f v _ kv hkv with rfl | h2
    · exact hv
    · cases hl : alookup to ws with
      | none => simp [hl] at h2
      | some l =>
        simp only [hl, Option.getD_some] at h2
        obtain ⟨p, hp, rfl⟩ := alookup_some_mem to ws l hl
        exact hws p hp kv h2
  · exact hws w h1

theorem writesP_foldl_addWrite (P : A → Prop) (tg : List Key) (f : Key) (v : A)
    (ws : List (Key × List (Key × A))) (hws : WritesP P ws) (hv : P v) :
    WritesP P (tg.foldl (fun ws k => addWrite ws k f v) ws) := by
  induction tg generalizing ws with
  | nil => exact hws
  | cons k rest ih => simp only [List.foldl_cons]; exact ih _ (writesP_addWrite P ws k f v hws hv)

theorem resolveStep_keeps (P : A → Prop) (r : Runner A) (acc : Resolved A) (t : Done A)
    (hcm : ValsP P acc.cm) (hws : WritesP P acc.writes) (ht : P t.2)
    (acc' : Resolved A) (hr : resolveStep r acc t = .ok acc') : ValsP P acc'.cm ∧ WritesP P acc'.writes := by
  unfold resolveStep at hr
  cases hc : r.call? t.1 with
  | none => simp [hc, pure, Except.pure] at hr; subst hr; exact ⟨hcm, hws⟩
  | some n =>
    simp only [hc] at hr
    unfold calcBranch at hr
    cases hs : selectOf n t.2 with
    | error e => simp [hs, bind, Except.bind] at hr
    | ok sel =>
      simp only [hs, bind, Except.bind] at hr
      cases hb : reportBranch r acc.cm n.key (skippedOf n sel) with
      | error e => simp [hb] at hr
      | ok cm' =>
        simp only [hb, pure, Except.pure, Except.ok.injEq] at hr
        subst hr
        exact ⟨valsP_reportBranch P r acc.cm n.key _ hcm cm' hb,
               writesP_foldl_addWrite P _ t.1 t.2 acc.writes hws ht⟩

theorem foldlM_resolveStep_keeps (P : A → Prop) (r : Runner A) (done : List (Done A)) (hd : ListP P done)
    (acc : Resolved A) (h1 : ValsP P acc.cm) (h2 : WritesP P acc.writes)
    (res : Resolved A) (hr : done.foldlM (resolveStep r) acc = .ok res) :
    ValsP P res.cm ∧ WritesP P res.writes := by
  induction done generalizing acc with
  | nil => simp [pure, Except.pure] at hr; subst hr; exact ⟨h1, h2⟩
  | cons d rest ih =>
    simp only [List.foldlM_cons, bind, Except.bind] at hr
    cases hs : resolveStep r acc d with
    | error e => simp [hs] at hr
    | ok acc' =>
      simp only [hs] at hr
      obtain ⟨k1, k2⟩ := resolveStep_keeps P r acc d h1 h2 (hd d (by simp)) acc' hs
      exact ih (fun x hx => hd x (by simp [hx])) acc' k1 k2 hr

theorem resolve_keeps (P : A → Prop) (r : Runner A) (cm : Chans A) (done : List (Done A))
    (hcm : ValsP P cm) (hd : ListP P done) (res : Resolved A) (hr : resolve r cm done = .ok res) :
    ValsP P res.cm ∧ WritesP P res.writes :=
  foldlM_resolveStep_keeps P r done hd _ hcm (by intro w hw; simp at hw) res hr

theorem chanP_foldl_valueKey (P : A → Prop) (ins : List (Key × A)) (c : Chan A)
    (hc : ChanP P c) (hi : ListP P ins) : ChanP P (ins.foldl valueKey c) := by
  induction ins generalizing c with
  | nil => exact hc
  | cons kv rest ih =>
    simp only [List.foldl_cons]
    apply ih _ _ (fun x hx => hi x (by simp [hx]))
    unfold valueKey
    split
    · intro x hx
      rcases mem_aset kv.1 kv.2 c.values x hx with rfl | h1
      · exact hi kv (by simp)
      · exact hc x h1
    · exact hc

theorem chanP_foldl_valueKeyP (P : A → Prop) (ins : List (Key × A)) (c : Chan A)
    (hc : ChanP P c) (hi : ListP P ins) : ChanP P (ins.foldl valueKeyP c) := by
  induction ins generalizing c with
  | nil => exact hc
  | cons kv rest ih =>
    simp only [List.foldl_cons]
    apply ih _ _ (fun x hx => hi x (by simp [hx]))
    intro x hx
    rcases mem_aset kv.1 kv.2 c.values x hx with rfl | h1
    · exact hi kv (by simp)
    · exact hc x h1

theorem chanP_reportValues (P : A → Prop) (dag : Bool) (c : Chan A) (ins : List (Key × A))
    (hc : ChanP P c) (hi : ListP P ins) : ChanP P (c.reportValues dag ins) := by
  rw [reportValues_eq]
  cases dag with
  | false => exact chanP_foldl_valueKeyP P ins c hc hi
  | true =>
    simp only [↓reduceIte]
    split
    · exact hc
    · exact chanP_foldl_valueKey P ins c hc hi

theorem valsP_updateValues (P : A → Prop) (r : Runner A) (cm : Chans A) (ws : List (Key × List (Key × A)))
    (hcm : ValsP P cm) (hws : WritesP P ws) : ValsP P (updateValues r cm ws) := by
  unfold updateValues
  induction ws generalizing cm with
  | nil => exact hcm
  | cons w rest ih =>
    simp only [List.foldl_cons]
    apply ih _ _ (fun x hx => hws x (by simp [hx]))
    apply valsP_modChan P cm w.1 _ hcm
    intro c hc
    apply chanP_reportValues P r.dag c _ hc
    intro kv hkv
    exact hws w (by simp) kv (List.mem_filter.mp hkv).1

theorem foldl_depKey_values {V} (deps : List Key) (c : Chan V) : (deps.foldl depKey c).values = c.values := by
  induction deps generalizing c with
  | nil => rfl
  | cons k rest ih =>
    simp only [List.foldl_cons]
    rw [ih]
    unfold depKey; split <;> rfl

theorem reportDeps_values {V} (dag : Bool) (c : Chan V) (deps : List Key) :
    (c.reportDeps dag deps).values = c.values := by
  rw [reportDeps_eq]
  cases dag with
  | false => rfl
  | true =>
    simp only [↓reduceIte]
    split
    · rfl
    · exact foldl_depKey_values deps c

theorem valsP_updateDeps (P : A → Prop) (r : Runner A) (cm : Chans A) (ds : List (Key × List Key))
    (hcm : ValsP P cm) : ValsP P (updateDeps r cm ds) := by
  unfold updateDeps
  induction ds generalizing cm with
  | nil => exact hcm
  | cons d rest ih =>
    simp only [List.foldl_cons]
    apply ih
    apply valsP_modChan P cm d.1 _ hcm
    intro c hc kv hkv
    rw [reportDeps_values] at hkv
    exact hc kv hkv

/-! ### one step, the loop, the run -/

def Next.mapN (h : A → B) : Next A → Next B
  | .result v => .result (h v)
  | .tasks ts => .tasks (mapL h ts)

def NextP (P : A → Prop) : Next A → Prop
  | .result v => P v
  | .tasks ts => ListP P ts

theorem alookup_mapL (h : A → B) (k : Key) (l : List (Key × A)) :
    alookup k (mapL h l) = (alookup k l).map h := alookup_map h k l

section
variable (h : A → B) (P : A → Prop) (tb : Branch A → Branch B) (tn : Node A → Node B) (r : Runner A)
variable (htb : ∀ n, r.Has n → ∀ b ∈ n.branches, BranchOK h P b (tb b)) (htn : ∀ n, r.Has n → NodeOK h P tb n (tn n))
variable (oA : ValOps A) (oB : ValOps B) (hops : FanInOK r.dag h P oA oB)
include htb htn hops

theorem calcNext_hom (cm : Chans A) (hcm : ValsP P cm)
    (done : List (Done A)) (hd : ListP P done) :
    calcNext oB (r.mapNodes tn) (mapCM h cm) (mapL h done)
      = (calcNext oA r cm done).map (fun x => (mapCM h x.1, x.2.mapN h)) ∧
    (∀ cm' nx, calcNext oA r cm done = .ok (cm', nx) → ValsP P cm' ∧ NextP P nx) := by
  unfold calcNext
  have hres := resolve_hom h P tb tn r htb htn cm done hd
  simp only [mapL] at hres ⊢
  rw [hres]
  cases hr : resolve r cm done with
  | error e => exact ⟨rfl, by intro cm' nx hc; simp [bind, Except.bind] at hc⟩
  | ok res =>
    obtain ⟨k1, k2⟩ := resolve_keeps P r cm done hcm hd res hr
    have k3 := valsP_updateValues P r res.cm res.writes k1 k2
    have k4 := valsP_updateDeps P r _ res.deps k3
    have hd' : (r.mapNodes tn).dag = r.dag := rfl
    simp only [Except.map, bind, Except.bind, Resolved.mapR, updateValues_hom, updateDeps_hom, hd',
      getReady_hom r.dag h P oA oB hops _ k4]
    obtain ⟨g1, g2⟩ := getReady_keeps r.dag h P oA oB hops _ k4
    generalize getReady oA r.dag (updateDeps r (updateValues r res.cm res.writes) res.deps) = gr at g1 g2 ⊢
    obtain ⟨cm3, ready, bad⟩ := gr
    simp only at g1 g2 ⊢
    cases bad with
    | true => exact ⟨rfl, by intro cm' nx hc; simp [throw, throwThe, MonadExceptOf.throw] at hc⟩
    | false =>
      simp only [Bool.false_eq_true, ↓reduceIte, alookup_mapL]
      cases he : alookup END ready with
      | some v =>
        refine ⟨rfl, ?_⟩
        intro cm' nx hc
        simp [pure, Except.pure] at hc
        obtain ⟨rfl, rfl⟩ := hc
        obtain ⟨p, hp, rfl⟩ := alookup_some_mem END ready v he
        exact ⟨g1, g2 p hp⟩
      | none =>
        refine ⟨rfl, ?_⟩
        intro cm' nx hc
        simp [pure, Except.pure] at hc
        obtain ⟨rfl, rfl⟩ := hc
        exact ⟨g1, g2⟩

end


def mapRes (h : A → B) (t : Key × Except Err A) : Key × Except Err B := (t.1, t.2.map h)

/-- the two runs collect the tasks of a step in corresponding orders -/
def SchedHom (h : A → B) (sA : Sched A) (sB : Sched B) : Prop :=
  ∀ n l, sB n (l.map (mapRes h)) = (sA n l).map (mapRes h)

/-- a schedule only hands back tasks it was given -/
def SchedSub (sA : Sched A) : Prop := ∀ n l x, x ∈ sA n l → x ∈ l

def Outcome.mapO (h : A → B) (o : Outcome A) : Outcome B :=
  { result := o.result.map h, trace := o.trace.map (mapL h) }

theorem mapM_collectOne_hom (h : A → B) (l : List (Key × Except Err A)) :
    (l.map (mapRes h)).mapM collectOne = (l.mapM collectOne).map (mapL h) := by
  induction l with
  | nil => rfl
  | cons a t ih =>
    simp only [List.map_cons, List.mapM_cons, ih]
    have : collectOne (mapRes h a) = (collectOne a).map (fun d => (d.1, h d.2)) := by
      unfold collectOne mapRes
      cases a.2 <;> rfl
    rw [this]
    cases collectOne a with
    | error e => rfl
    | ok d =>
      simp only [Except.map, bind, Except.bind]
      cases List.mapM collectOne t <;> rfl

theorem mapM_collectOne_mem (l : List (Key × Except Err A)) (done : List (Done A))
    (hd0 : l.mapM collectOne = .ok done) (d : Done A) (hd1 : d ∈ done) :
    (d.1, (Except.ok d.2 : Except Err A)) ∈ l := by
  induction l generalizing done with
  | nil => simp [pure, Except.pure] at hd0; subst hd0; simp at hd1
  | cons a t ih =>
    simp only [List.mapM_cons, bind, Except.bind] at hd0
    cases ha : collectOne a with
    | error e => simp [ha] at hd0
    | ok x =>
      simp only [ha] at hd0
      cases ht : List.mapM collectOne t with
      | error e => simp [ht] at hd0
      | ok d' =>
        simp only [ht, pure, Except.pure, Except.ok.injEq] at hd0
        subst hd0
        simp only [List.mem_cons] at hd1
        rcases hd1 with rfl | hd1
        · unfold collectOne at ha
          cases h2 : a.2 with
          | ok o =>
            simp [h2] at ha; subst ha
            simp only [List.mem_cons]
            left
            obtain ⟨a1, a2⟩ := a
            simp at h2; simp [h2]
          | error e => simp [h2] at ha
        · exact List.mem_cons_of_mem _ (ih d' ht hd1)

section
variable (h : A → B) (P : A → Prop) (tb : Branch A → Branch B) (tn : Node A → Node B) (r : Runner A)
variable (htn : ∀ n, r.Has n → NodeOK h P tb n (tn n))
include htn

theorem execOne_hom (t : Key × A) (ht : P t.2) :
    execOne (r.mapNodes tn) (t.1, h t.2) = mapRes h (execOne r t) := by
  unfold execOne mapRes
  simp only [node?_mapNodes h P tb tn r htn]
  cases hn : r.node? t.1 with
  | none => rfl
  | some n => simp [(htn n (r.has_of_node? t.1 n hn)).act t.2 ht]

theorem execOne_keeps (t : Key × A) (ht : P t.2) (v : A) (hv : (execOne r t).2 = .ok v) : P v := by
  unfold execOne at hv
  cases hn : r.node? t.1 with
  | none => simp [hn] at hv; subst hv; exact ht
  | some n => simp only [hn] at hv; exact (htn n (r.has_of_node? t.1 n hn)).keeps t.2 v ht hv

theorem runTasks_hom (sA : Sched A) (sB : Sched B) (hs : SchedHom h sA sB) (hsub : SchedSub sA)
    (step : Nat) (ts : List (Key × A)) (hts : ListP P ts) :
    runTasks (r.mapNodes tn) sB step (mapL h ts) = (runTasks r sA step ts).map (mapL h) ∧
    (∀ done, runTasks r sA step ts = .ok done → ListP P done) := by
  unfold runTasks
  have hmap : (mapL h ts).map (execOne (r.mapNodes tn)) = (ts.map (execOne r)).map (mapRes h) := by
    unfold mapL
    rw [List.map_map, List.map_map]
    apply List.map_congr_left
    intro t ht
    exact execOne_hom h P tb tn r htn t (hts t ht)
  rw [hmap, hs, mapM_collectOne_hom h]
  refine ⟨rfl, ?_⟩
  intro done hdone d hd
  have hin := mapM_collectOne_mem _ done hdone d hd
  have hin2 := hsub step _ _ hin
  simp only [List.mem_map] at hin2
  obtain ⟨t, ht, he⟩ := hin2
  have h2 : (execOne r t).2 = .ok d.2 := by rw [he]
  exact execOne_keeps h P tb tn r htn t (hts t ht) d.2 h2

end

section
variable (h : A → B) (P : A → Prop) (tb : Branch A → Branch B) (tn : Node A → Node B) (r : Runner A)
variable (htb : ∀ n, r.Has n → ∀ b ∈ n.branches, BranchOK h P b (tb b)) (htn : ∀ n, r.Has n → NodeOK h P tb n (tn n))
variable (oA : ValOps A) (oB : ValOps B) (hops : FanInOK r.dag h P oA oB)
include htb htn hops

/-- the loop commutes with `h`, and a successful result satisfies the invariant -/
theorem loop_hom (sA : Sched A) (sB : Sched B)
    (hs : SchedHom h sA sB) (hsub : SchedSub sA) :
    ∀ (fuel : Nat) (cm : Chans A) (tasks : List (Key × A)) (tr : Trace A),
      ValsP P cm → ListP P tasks →
      loop oB (r.mapNodes tn) sB fuel (mapCM h cm) (mapL h tasks) (tr.map (mapL h))
        = (loop oA r sA fuel cm tasks tr).mapO h ∧
      (∀ v, (loop oA r sA fuel cm tasks tr).result = .ok v → P v) := by
  intro fuel
  induction fuel with
  | zero =>
    intro cm tasks tr _ _
    refine ⟨?_, ?_⟩
    · simp only [loop, Outcome.mapO, Except.map, List.map_reverse]
      rfl
    · intro v hv; simp [loop] at hv
  | succ n ih =>
    intro cm tasks tr hcm hts
    unfold loop
    simp only [List.length_map]
    obtain ⟨r1, r2⟩ := runTasks_hom h P tb tn r htn sA sB hs hsub tr.length tasks hts
    rw [r1]
    cases hr : runTasks r sA tr.length tasks with
    | error e => exact ⟨by simp [Except.map, Outcome.mapO, List.map_reverse], by intro v hv; simp at hv⟩
    | ok done =>
      simp only [Except.map]
      have hemp : (mapL h done).isEmpty = done.isEmpty := by cases done <;> rfl
      rw [hemp]
      by_cases he : done.isEmpty = true
      · exact ⟨by simp [he, Outcome.mapO, Except.map, List.map_reverse], by intro v hv; simp [he] at hv⟩
      · simp only [he, Bool.false_eq_true, ↓reduceIte]
        obtain ⟨c1, c2⟩ := calcNext_hom h P tb tn r htb htn oA oB hops cm hcm done (r2 done hr)
        rw [c1]
        cases hc : calcNext oA r cm done with
        | error e => exact ⟨by simp [Except.map, Outcome.mapO, List.map_reverse], by intro v hv; simp at hv⟩
        | ok res =>
          obtain ⟨cm', nx⟩ := res
          obtain ⟨k1, k2⟩ := c2 cm' nx hc
          cases nx with
          | result v =>
            refine ⟨by simp [Except.map, Outcome.mapO, Next.mapN, List.map_reverse], ?_⟩
            intro w hw
            simp only [Except.ok.injEq] at hw
            subst hw
            exact k2
          | tasks ts =>
            simp only [Except.map, Next.mapN]
            have := ih cm' ts (tasks :: tr) k1 k2
            exact ⟨by simpa using this.1, this.2⟩

/-- **relativised engine homomorphism**: the node and branch hypotheses are required only
    for the nodes of `r` (`r.start`, the members of `r.nodes`) and their branches; the fan-in
    hypothesis only for merges of two or more values (and the zero value in all-predecessor
    mode).  The second part: a successful result satisfies the invariant. -/
theorem run_hom_keeps_on (sA : Sched A) (sB : Sched B)
    (hs : SchedHom h sA sB) (hsub : SchedSub sA) (x : A) (hx : P x) :
    runS oB (r.mapNodes tn) sB (h x) = (runS oA r sA x).mapO h ∧
    (∀ v, (runS oA r sA x).result = .ok v → P v) := by
  unfold runS
  have hci : ∀ (dag : Bool) (cp dp : List Key), (Chan.init dag cp dp : Chan B) = (Chan.init dag cp dp : Chan A).mapV h := by
    intro dag cp dp; cases dag <;> rfl
  have hinit : initChans (r.mapNodes tn) = mapCM h (initChans r) := by
    simp only [initChans, Runner.mapNodes, mapCM, List.map_append, List.map_map, List.map_cons, List.map_nil, hci]
    congr 1
    apply List.map_congr_left
    intro n hn
    simp [Function.comp, (htn n (Or.inr hn)).key]
  have hP0 : ValsP P (initChans r) := by
    intro p hp kv hkv
    simp only [initChans, List.mem_append, List.mem_map, List.mem_singleton] at hp
    rcases hp with ⟨n, _, rfl⟩ | rfl <;> (simp only [Chan.init] at hkv; split at hkv <;> simp at hkv)
  obtain ⟨c1, c2⟩ := calcNext_hom h P tb tn r htb htn oA oB hops (initChans r) hP0 [(START, x)]
    (by intro d hd; simp at hd; subst hd; exact hx)
  simp only [mapL, List.map_cons, List.map_nil] at c1
  rw [hinit, c1]
  cases hc : calcNext oA r (initChans r) [(START, x)] with
  | error e => exact ⟨by simp [Except.map, Outcome.mapO], by intro v hv; simp at hv⟩
  | ok res =>
    obtain ⟨cm', nx⟩ := res
    obtain ⟨k1, k2⟩ := c2 cm' nx hc
    cases nx with
    | result v =>
      refine ⟨by simp [Except.map, Outcome.mapO, Next.mapN], ?_⟩
      intro w hw
      simp only [Except.ok.injEq] at hw
      subst hw
      exact k2
    | tasks ts =>
      simp only [Except.map, Next.mapN]
      have hf : (r.mapNodes tn).fuel = r.fuel := by simp [Runner.fuel, Runner.mapNodes]
      rw [hf]
      have := loop_hom h P tb tn r htb htn oA oB hops sA sB hs hsub r.fuel cm' ts [] k1 k2
      exact ⟨by simpa using this.1, this.2⟩

theorem run_hom_on (sA : Sched A) (sB : Sched B)
    (hs : SchedHom h sA sB) (hsub : SchedSub sA) (x : A) (hx : P x) :
    runS oB (r.mapNodes tn) sB (h x) = (runS oA r sA x).mapO h :=
  (run_hom_keeps_on h P tb tn r htb htn oA oB hops sA sB hs hsub x hx).1

theorem run_keeps_on (sA : Sched A) (sB : Sched B)
    (hs : SchedHom h sA sB) (hsub : SchedSub sA) (x : A) (hx : P x) (v : A)
    (hv : (runS oA r sA x).result = .ok v) : P v :=
  (run_hom_keeps_on h P tb tn r htb htn oA oB hops sA sB hs hsub x hx).2 v hv

end

/-- the all-quantified form: every node and every branch of the type corresponds -/
theorem run_hom (h : A → B) (P : A → Prop) (tb : Branch A → Branch B) (tn : Node A → Node B)
    (htb : ∀ b, BranchOK h P b (tb b)) (htn : ∀ n, NodeOK h P tb n (tn n))
    (oA : ValOps A) (oB : ValOps B) (hops : OpsOK h P oA oB)
    (r : Runner A) (hz : r.dag = true → P oA.zero) (sA : Sched A) (sB : Sched B)
    (hs : SchedHom h sA sB) (hsub : SchedSub sA) (x : A) (hx : P x) :
    runS oB (r.mapNodes tn) sB (h x) = (runS oA r sA x).mapO h :=
  run_hom_on h P tb tn r (fun _ _ b _ => htb b) (fun n _ => htn n) oA oB (hops.fanIn r.dag hz) sA sB hs hsub x hx

end EinoV.Engine
