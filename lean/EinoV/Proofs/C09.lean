/-
  C09 — helper lemmas: with every slot allocated per run, a step of run `j` changes only
  `priv j`, and the interleaved execution factors into the runs executed alone.
-/
import EinoV.Model.C09

namespace EinoV.C09

theorem load_allPerRun (h : Heap) (i : Nat) : load Alloc.allPerRun h i = h.priv i := by
  cases hp : h.priv i
  simp [load, Alloc.allPerRun, hp]

theorem store_allPerRun_shared (h : Heap) (i : Nat) (s : Slots) :
    (store Alloc.allPerRun h i s).shared = h.shared := by
  cases hs : h.shared
  simp [store, Alloc.allPerRun, hs]

theorem store_allPerRun_priv (h : Heap) (i j : Nat) (s : Slots) :
    (store Alloc.allPerRun h i s).priv j = if j = i then s else h.priv j := by
  cases s
  simp [store, Alloc.allPerRun]

theorem stepRun_allPerRun_priv (step : Nat → Slots → Slots) (h : Heap) (i j : Nat) :
    (stepRun Alloc.allPerRun step h j).priv i = if i = j then step j (h.priv j) else h.priv i := by
  simp [stepRun, store_allPerRun_priv, load_allPerRun]

theorem stepRun_allPerRun_shared (step : Nat → Slots → Slots) (h : Heap) (j : Nat) :
    (stepRun Alloc.allPerRun step h j).shared = h.shared := by
  simp [stepRun, store_allPerRun_shared]

/-- The interleaved execution is the product of the runs executed alone; the shared part
    never changes. -/
theorem exec_allPerRun (step : Nat → Slots → Slots) (sched : List Nat) :
    ∀ h : Heap,
      (exec Alloc.allPerRun step sched h).shared = h.shared ∧
      ∀ i, (exec Alloc.allPerRun step sched h).priv i
             = alone step i (sched.count i) (h.priv i) := by
  induction sched with
  | nil => intro h; simp [exec, alone]
  | cons j rest ih =>
    intro h
    obtain ⟨ihs, ihp⟩ := ih (stepRun Alloc.allPerRun step h j)
    refine ⟨by simp [exec, ihs, stepRun_allPerRun_shared], ?_⟩
    intro i
    simp only [exec]
    rw [ihp i, stepRun_allPerRun_priv]
    by_cases hij : i = j
    · subst hij
      simp [alone]
    · have : (j == i) = false := by
        simp [beq_eq_false_iff_ne]; exact fun h => hij h.symm
      simp [List.count_cons, hij, this]

/-- `alone` composes: running `m + n` steps is `m` steps then `n` steps. -/
theorem alone_add (step : Nat → Slots → Slots) (i m n : Nat) (s : Slots) :
    alone step i (m + n) s = alone step i n (alone step i m s) := by
  induction m generalizing s with
  | zero => simp [alone]
  | succ m ih =>
    have : m + 1 + n = (m + n) + 1 := by omega
    rw [this]; simp [alone, ih]

/-- a finished layered run stays finished: further steps are no-ops -/
theorem layeredStep_idle (prog : List Layer) (s : Slots) (h : prog.length ≤ s.tm) :
    layeredStep prog s = s := by
  unfold layeredStep
  have : prog[s.tm]? = none := by simp; exact h
  simp [this]

theorem applyLayer_tm (l : Layer) (s : Slots) : (applyLayer l s).tm = s.tm := by
  unfold applyLayer
  split
  · rfl
  · rfl
  · split
    · split <;> rfl
    · rfl

theorem layeredStep_tm (prog : List Layer) (s : Slots) (h : s.tm < prog.length) :
    (layeredStep prog s).tm = s.tm + 1 := by
  unfold layeredStep
  have : prog[s.tm]? = some prog[s.tm] := by simp [h]
  simp [this]

theorem alone_layered_tm (prog : List Layer) (i n : Nat) (s : Slots) (h : s.tm + n ≤ prog.length) :
    (alone (fun _ => layeredStep prog) i n s).tm = s.tm + n := by
  induction n generalizing s with
  | zero => simp [alone]
  | succ n ih =>
    simp only [alone]
    have h1 : s.tm < prog.length := by omega
    have h2 := layeredStep_tm prog s h1
    rw [ih (layeredStep prog s) (by omega), h2]; omega

theorem alone_idle (prog : List Layer) (i n : Nat) (s : Slots) (h : prog.length ≤ s.tm) :
    alone (fun _ => layeredStep prog) i n s = s := by
  induction n generalizing s with
  | zero => rfl
  | succ n ih => simp only [alone]; rw [layeredStep_idle prog s h]; exact ih s h

end EinoV.C09
