/-
  Order-freeness of whole call sequences: two runs of the same Graph-API calls under two
  different map iteration orders stay indistinguishable (`Sim`) call after call.
-/
import EinoV.Proofs.C20Order

namespace EinoV.Build

/-! ### node keys: unique, never reserved; never changed except by addNode -/

def keysOf (b : Builder) : List (Key × Bool) := b.nodes.map (fun n => (n.key, n.passthrough))

structure KeysOK (b : Builder) : Prop where
  nodup : (b.nodes.map (·.key)).Nodup
  nores : ∀ n ∈ b.nodes, n.key ≠ START ∧ n.key ≠ END

theorem keysOf_fst (b : Builder) : (keysOf b).map (·.1) = b.nodes.map (·.key) := by
  simp [keysOf, List.map_map, Function.comp_def]

theorem KeysOK.of_keys {b b' : Builder} (h : KeysOK b) (hk : keysOf b' = keysOf b) : KeysOK b' := by
  have hk1 : b'.nodes.map (·.key) = b.nodes.map (·.key) := by rw [← keysOf_fst, ← keysOf_fst, hk]
  refine ⟨by rw [hk1]; exact h.nodup, ?_⟩
  intro n hn
  have : n.key ∈ b.nodes.map (·.key) := by rw [← hk1]; exact List.mem_map_of_mem hn
  obtain ⟨m, hm, hmk⟩ := List.mem_map.mp this
  rw [← hmk]; exact h.nores m hm

theorem findNode_of_mem_nodup {ns : List Node} (hn : (ns.map (·.key)).Nodup) {n : Node} (h : n ∈ ns) :
    findNode ns n.key = some n := by
  induction ns with
  | nil => simp at h
  | cons m ns ih =>
    simp only [List.map_cons, List.nodup_cons] at hn
    simp only [findNode]
    rcases List.mem_cons.mp h with e | e
    · subst e; simp
    · have hne : m.key ≠ n.key := by
        intro e2; exact hn.1 (by rw [e2]; exact List.mem_map_of_mem e)
      simp only [hne, ↓reduceIte]
      exact ih hn.2 e

theorem KeysOK.types_of_mem {b : Builder} (h : KeysOK b) {n : Node} (hn : n ∈ b.nodes) :
    b.nodeIn n.key = n.inTy ∧ b.nodeOut n.key = n.outTy := by
  have hr := h.nores n hn
  have hf := findNode_of_mem_nodup h.nodup hn
  simp [Builder.nodeIn, Builder.nodeOut, hr.1, hr.2, hf]

/-- `hasUntyped`, read through the type functions -/
theorem KeysOK.hasUntyped_iff {b : Builder} (h : KeysOK b) :
    b.hasUntyped = true ↔ ∃ k ∈ b.nodes.map (·.key), b.nodeIn k = none ∨ b.nodeOut k = none := by
  unfold Builder.hasUntyped
  simp only [List.any_eq_true, Bool.or_eq_true, Option.isNone_iff_eq_none, List.mem_map]
  constructor
  · rintro ⟨n, hn, hu⟩
    obtain ⟨e1, e2⟩ := h.types_of_mem hn
    exact ⟨n.key, ⟨n, hn, rfl⟩, by rw [e1, e2]; exact hu⟩
  · rintro ⟨k, ⟨n, hn, rfl⟩, hu⟩
    obtain ⟨e1, e2⟩ := h.types_of_mem hn
    exact ⟨n, hn, by rw [← e1, ← e2]; exact hu⟩

theorem Sim.hasUntyped {b b' : Builder} (h : Sim b b') (hk : KeysOK b) : b'.hasUntyped = b.hasUntyped := by
  have hk' : KeysOK b' := hk.of_keys h.keys
  have hk1 : b'.nodes.map (·.key) = b.nodes.map (·.key) := by
    rw [← keysOf_fst, ← keysOf_fst]; exact congrArg _ h.keys
  have : b'.hasUntyped = true ↔ b.hasUntyped = true := by
    rw [hk'.hasUntyped_iff, hk.hasUntyped_iff, hk1]
    constructor
    · rintro ⟨k, hk2, hu⟩; exact ⟨k, hk2, by rw [← h.tin, ← h.tout]; exact hu⟩
    · rintro ⟨k, hk2, hu⟩; exact ⟨k, hk2, by rw [h.tin, h.tout]; exact hu⟩
  cases h1 : b'.hasUntyped <;> cases h2 : b.hasUntyped <;> simp_all

/-! #### keys are preserved by everything but addNode (no invariant needed) -/

theorem procEntries_keys (im : Impl) (s : Key) :
    ∀ (entries : List PEdge) (b : Builder) (kept : List PEdge) (ch : Bool) b' kept' ch' (sTy : Option Ty),
      procEntries im s sTy entries b kept ch = .ok (b', kept', ch') → keysOf b' = keysOf b := by
  intro entries
  induction entries with
  | nil =>
    intro b kept ch b' kept' ch' sTy h
    simp only [procEntries, Except.ok.injEq, Prod.mk.injEq] at h
    rw [← h.1]
  | cons pe rest ih =>
    intro b kept ch b' kept' ch' sTy h
    simp only [procEntries] at h
    repeat' split at h
    all_goals first | (simp at h; done) |
      (have := ih _ _ _ _ _ _ _ h; simpa [keysOf, Builder.setTy, setTyIn_keys] using this)

theorem updRound_keys (im : Impl) :
    ∀ (ks : List Key) (b : Builder) (ch : Bool) b' ch', updRound im ks b ch = .ok (b', ch') → keysOf b' = keysOf b := by
  intro ks
  induction ks with
  | nil =>
    intro b ch b' ch' h
    simp only [updRound, Except.ok.injEq, Prod.mk.injEq] at h
    rw [← h.1]
  | cons s ks ih =>
    intro b ch b' ch' h
    simp only [updRound] at h
    rcases hpr : procEntries im s (b.nodeOut s) (getSlice b.toValidate s) b [] false with k | ⟨b1, kept, ch1⟩
    · simp [hpr] at h
    · simp only [hpr] at h
      have h1 := procEntries_keys im s _ _ _ _ _ _ _ _ hpr
      have h2 := ih _ _ _ _ h
      rw [h2]; exact h1

theorem update_keys (im : Impl) (ord : Ord) (b b' : Builder) (h : update im ord b = .ok b') : keysOf b' = keysOf b := by
  unfold update at h
  have : ∀ (fuel : Nat) (b b' : Builder), updLoop im ord fuel b = .ok b' → keysOf b' = keysOf b := by
    intro fuel
    induction fuel with
    | zero => intro b b' h; simp only [updLoop, Except.ok.injEq] at h; rw [← h]
    | succ n ih =>
      intro b b' h
      simp only [updLoop] at h
      rcases hr : updRound im (ord.keys b (b.toValidate.map (·.1))) b false with k | ⟨b1, ch⟩
      · simp [hr] at h
      · simp only [hr] at h
        have h1 := updRound_keys im _ _ _ _ _ hr
        split at h
        · rw [ih _ _ h]; exact h1
        · simp only [Except.ok.injEq] at h; rw [← h]; exact h1
  exact this _ _ _ h

theorem branchEnds_keys (im : Impl) (ord : Ord) (s : Key) :
    ∀ (es : List Key) (b b' : Builder), branchEnds im ord s es b = .ok b' → keysOf b' = keysOf b := by
  intro es
  induction es with
  | nil => intro b b' h; simp only [branchEnds, Except.ok.injEq] at h; rw [← h]
  | cons e es ih =>
    intro b b' h
    simp only [branchEnds] at h
    split at h
    · simp at h
    · split at h
      · simp at h
      · rename_i b1 hupd
        have h1 := update_keys im ord _ _ hupd
        have h2 := ih _ _ h
        rw [h2]; exact h1


/-! ### outcomes up to the error kind -/

inductive Cls where
  | ok | err | compiled | panic
  deriving DecidableEq, Repr

def Outcome.cls : Outcome → Cls
  | .ok => .ok
  | .fresh _ => .err
  | .stored _ => .err
  | .compiled => .compiled
  | .panic => .panic

/-- both runs already carry a stored error -/
def BothErr (b b' : Builder) : Prop := b.buildError.isSome = true ∧ b'.buildError.isSome = true

theorem Sim.compiled {b b' : Builder} (h : Sim b b') : b'.compiled = b.compiled := by
  have := h.fr; simp only [Builder.simFrame, Prod.mk.injEq] at this; exact this.2.2.2.2.2.2.2.2.1

/-- the common prologue/epilogue on two indistinguishable states, given related bodies -/
theorem guarded_sim {R : Builder → Builder → Prop} (g : Guards) (hg : g.storeErr = true)
    (b b' : Builder) (hs : Sim b b')
    (body body' : Except ErrKind Builder)
    (hbody : (∃ k k', body = .error k ∧ body' = .error k') ∨
             (∃ c c', body = .ok c ∧ body' = .ok c' ∧ R c c'))
    (hR : R b b') :
    (guarded g b body).2.cls = (guarded g b' body').2.cls ∧
    (R (guarded g b body).1 (guarded g b' body').1 ∨
     BothErr (guarded g b body).1 (guarded g b' body').1) := by
  unfold guarded
  have e1 : (if g.checkErr = true then b.buildError else none) = none := by split <;> simp [hs.err.1]
  have e2 : (if g.checkErr = true then b'.buildError else none) = none := by split <;> simp [hs.err.2]
  simp only [e1, e2, hs.compiled, hg, ↓reduceIte]
  cases hc : (g.checkCompiled && b.compiled)
  · simp only [Bool.false_eq_true, ↓reduceIte]
    rcases hbody with ⟨k, k', e1, e2⟩ | ⟨c, c', e1, e2, hr⟩
    · subst e1; subst e2
      refine ⟨by simp [Outcome.cls], Or.inr ⟨by simp, by simp⟩⟩
    · subst e1; subst e2
      refine ⟨by simp [Outcome.cls], Or.inl hr⟩
  · simp only [↓reduceIte]
    refine ⟨by simp, Or.inl hR⟩

/-! ### addNode -/

theorem addNodeCheck_sim {b b' : Builder} (hs : Sim b b') (n : NodeSpec) : addNodeCheck b' n = addNodeCheck b n := by
  have hfr := hs.fr
  simp only [Builder.simFrame, Prod.mk.injEq] at hfr
  unfold addNodeCheck
  rw [hs.hasNode, hfr.1, hfr.2.2.2.1]

theorem findNode_append_new (ns : List Node) (m : Node) (h : findNode ns m.key = none) :
    findNode (ns ++ [m]) m.key = some m := by
  induction ns with
  | nil => simp [findNode]
  | cons x ns ih =>
    simp only [findNode] at h
    simp only [List.cons_append, findNode]
    split
    · rename_i hk; simp [hk] at h
    · rename_i hk; simp only [hk, ↓reduceIte] at h; exact ih h

theorem addNode_sim (f : Facts) (hf : f.Guarded) (b b' : Builder) (hs : Sim b b') (n : NodeSpec) :
    (addNode f b n).2.cls = (addNode f b' n).2.cls ∧
    (Sim (addNode f b n).1 (addNode f b' n).1 ∨ BothErr (addNode f b n).1 (addNode f b' n).1) := by
  unfold addNode
  apply guarded_sim (R := Sim) f.nodeG (by rw [hf.node]; rfl) b b' hs
  · rw [addNodeCheck_sim hs n]
    rcases hck : addNodeCheck b n with _ | k
    · right
      refine ⟨_, _, rfl, rfl, ?_⟩
      -- the key is new on both sides
      have hkey : n.key ≠ START ∧ n.key ≠ END ∧ b.hasNode n.key = false := by
        unfold addNodeCheck at hck
        by_cases h1 : (n.key = END || n.key = START) = true
        · simp [h1] at hck
        · simp only [h1] at hck
          by_cases h2 : b.hasNode n.key = true
          · simp [h2] at hck
          · simp only [Bool.or_eq_true, decide_eq_true_eq, not_or] at h1
            exact ⟨h1.2, h1.1, by simpa using h2⟩
      obtain ⟨hk1, hk2, hk3⟩ := hkey
      have hk3' : b'.hasNode n.key = false := by rw [hs.hasNode]; exact hk3
      have hnk : (n.node).key = n.key := by unfold NodeSpec.node; split <;> rfl
      have hfn : ∀ (x : Builder), x.hasNode n.key = false → findNode x.nodes n.key = none := by
        intro x hx
        unfold Builder.hasNode at hx
        rcases hf' : findNode x.nodes n.key with _ | y
        · rfl
        · simp [hf'] at hx
      have types : ∀ (x : Builder), x.hasNode n.key = false → ∀ k,
          ({ x with nodes := x.nodes ++ [n.node] } : Builder).nodeIn k =
            (if k = n.key then (n.node).inTy else x.nodeIn k) ∧
          ({ x with nodes := x.nodes ++ [n.node] } : Builder).nodeOut k =
            (if k = n.key then (n.node).outTy else x.nodeOut k) := by
        intro x hx k
        by_cases hk : k = n.key
        · subst hk
          have := findNode_append_new x.nodes n.node (by rw [hnk]; exact hfn x hx)
          rw [hnk] at this
          simp [Builder.nodeIn, Builder.nodeOut, hk1, hk2, this]
        · have := findNode_append_ne x.nodes n.node k (by rw [hnk]; exact fun e => hk e.symm)
          simp [Builder.nodeIn, Builder.nodeOut, hk, this]
      refine ⟨?_, hs.err, ?_, ?_, hs.pend⟩
      · have hfr := hs.fr
        simp only [Builder.simFrame, Prod.mk.injEq] at hfr ⊢
        obtain ⟨h1, h2, h3, h4, h5, h6, h7, h8, h9, h10, h11, h12, h13⟩ := hfr
        simp only [h1, h2, h3, h4, h5, h6, h7, h8, h9, h10, h12, h13, List.map_append, h11, and_self]
      · intro k; rw [(types b' hk3' k).1, (types b hk3 k).1, hs.tin]
      · intro k; rw [(types b' hk3' k).2, (types b hk3 k).2, hs.tout]
    · left; exact ⟨k, k, rfl, rfl⟩
  · exact hs


/-! ### AddEdge -/

/-- the structural checks of addEdgeWithMappings (Graph API flags), in source order -/
def edgeStruct (b : Builder) (s e : Key) : Option ErrKind :=
  if s = END then some .endAsStart
  else if e = START then some .startAsEnd
  else if !b.hasNode s && s != START then some .unknownStart
  else if !b.hasNode e && e != END then some .unknownEnd
  else if b.controlEdges.contains (s, e) then some .dupControl
  else if b.dataEdges.contains (s, e) then some .dupData
  else none

def edgeCtl (b : Builder) (s e : Key) : Builder :=
  { b with controlEdges := b.controlEdges ++ [(s, e)],
           startNodes := if s = START then b.startNodes ++ [e] else b.startNodes,
           endNodes := if e = END then b.endNodes ++ [s] else b.endNodes }

theorem addEdgeBody_eq (im : Impl) (ord : Ord) (b : Builder) (s e : Key) :
    addEdgeBody im ord b s e false false none =
      match edgeStruct b s e with
      | some k => .error k
      | none =>
        match update im ord ((edgeCtl b s e).addToValidate s { dst := e, mapped := none }) with
        | .error k => .error k
        | .ok b2 => .ok { b2 with dataEdges := b2.dataEdges ++ [(s, e)] } := by
  unfold addEdgeBody edgeStruct
  simp only [Bool.false_eq_true, ↓reduceIte]
  by_cases h1 : s = END
  · simp [h1]
  · by_cases h2 : e = START
    · simp [h1, h2]
    · by_cases h3 : (!b.hasNode s && s != START) = true
      · simp only [h1, h2, h3, ↓reduceIte, Bool.false_eq_true]
      · by_cases h4 : (!b.hasNode e && e != END) = true
        · simp only [h1, h2, h3, h4, ↓reduceIte, Bool.false_eq_true]
        · by_cases h5 : b.controlEdges.contains (s, e) = true
          · simp only [h1, h2, h3, h4, h5, ↓reduceIte, Bool.false_eq_true]
          · by_cases h6 : b.dataEdges.contains (s, e) = true
            · have h6' : (edgeCtl b s e).dataEdges.contains (s, e) = true := h6
              simp only [h1, h2, h3, h4, h5, h6, ↓reduceIte, Bool.false_eq_true]
            · simp only [h1, h2, h3, h4, h5, h6, ↓reduceIte, Bool.false_eq_true]
              rfl

theorem edgeStruct_sim {b b' : Builder} (hs : Sim b b') (s e : Key) : edgeStruct b' s e = edgeStruct b s e := by
  have hfr := hs.fr
  simp only [Builder.simFrame, Prod.mk.injEq] at hfr
  unfold edgeStruct
  rw [hs.hasNode, hs.hasNode, hfr.2.2.2.2.1, hfr.2.2.2.2.2.1]

/-- the preconditions of the work list after one pending entry has been added to a state
    satisfying the between-calls invariant -/
def chooseT (b : Builder) (s e : Key) : Ty :=
  match b.nodeOut s, b.nodeIn e with
  | none, some B => B
  | some A, none => A
  | _, _ => Ty.any

theorem data_pre (im : Impl) (b : Builder) (X : List (Key × Key)) (s e : Key) (hi : InvC im b X)
    (hs : b.hasNode s = true ∨ b.nodeOut s ≠ none) (he : b.hasNode e = true ∨ b.nodeIn e ≠ none) :
    let b1 := b.addToValidate s { dst := e, mapped := none }
    WF b1 ∧ Q b1 (chooseT b s e) ∧ PN b1 := by
  intro b1
  let pe : PEdge := { dst := e, mapped := none }
  have hsl : ∀ s' x, x ∈ getSlice b1.toValidate s' ↔ (x ∈ getSlice b.toValidate s' ∨ (s' = s ∧ x = pe)) := by
    intro s' x
    show x ∈ getSlice (addPending b.toValidate s pe) s' ↔ _
    rw [getSlice_addPending]
    by_cases hs' : s' = s
    · subst hs'; simp
    · simp [hs']
  refine ⟨hi.wf, ?_, ?_⟩
  · intro s' x hx
    rcases (hsl s' x).mp hx with hx | ⟨rfl, rfl⟩
    · exact hi.i2.q _ s' x hx
    · show (b.nodeOut s' = none → b.nodeIn e = none ∨ b.nodeIn e = some (chooseT b s' e)) ∧
           (b.nodeIn e = none → b.nodeOut s' = none ∨ b.nodeOut s' = some (chooseT b s' e))
      rcases ho : b.nodeOut s' with _ | A <;> rcases hin : b.nodeIn e with _ | B <;> simp [chooseT, ho, hin]
  · intro s' x hx
    rcases (hsl s' x).mp hx with hx | ⟨rfl, rfl⟩
    · exact hi.pn s' x hx
    · refine ⟨fun hn => ?_, fun hn => ?_, rfl⟩
      · rcases he with he | he
        · exact he
        · exact absurd hn he
      · rcases hs with hs | hs
        · exact hs
        · exact absurd hn hs

theorem Sim.addToValidate {b b' : Builder} (hs : Sim b b') (s : Key) (pe : PEdge) :
    Sim (b.addToValidate s pe) (b'.addToValidate s pe) := by
  refine ⟨hs.fr, hs.err, hs.tin, hs.tout, ?_⟩
  intro s' x
  show x ∈ getSlice (addPending b'.toValidate s pe) s' ↔ x ∈ getSlice (addPending b.toValidate s pe) s'
  rw [getSlice_addPending, getSlice_addPending]
  by_cases h : s' = s
  · subst h; simp only [↓reduceIte, List.mem_append, hs.pend]
  · simp only [h, ↓reduceIte, hs.pend]

theorem chooseT_sim {b b' : Builder} (hs : Sim b b') (s e : Key) : chooseT b' s e = chooseT b s e := by
  unfold chooseT; rw [hs.tout, hs.tin]

/-- one pending data connection added to two indistinguishable states (each satisfying the
    between-calls invariant), then the work list under two orders -/
theorem data_sim (im : Impl) (ord ord' : Ord) (hv : ord.Valid) (hv' : ord'.Valid)
    (b b' : Builder) (X X' : List (Key × Key)) (s e : Key) (hs : Sim b b')
    (hi : InvC im b X) (hi' : InvC im b' X')
    (h1 : b.hasNode s = true ∨ b.nodeOut s ≠ none) (h2 : b.hasNode e = true ∨ b.nodeIn e ≠ none) :
    let pe : PEdge := { dst := e, mapped := none }
    (∃ k k', update im ord (b.addToValidate s pe) = .error k ∧ update im ord' (b'.addToValidate s pe) = .error k') ∨
    (∃ c c', update im ord (b.addToValidate s pe) = .ok c ∧ update im ord' (b'.addToValidate s pe) = .ok c' ∧ Sim c c') := by
  intro pe
  have h1' : b'.hasNode s = true ∨ b'.nodeOut s ≠ none := by rw [hs.hasNode, hs.tout]; exact h1
  have h2' : b'.hasNode e = true ∨ b'.nodeIn e ≠ none := by rw [hs.hasNode, hs.tin]; exact h2
  obtain ⟨w, q, p⟩ := data_pre im b X s e hi h1 h2
  obtain ⟨w', _, p'⟩ := data_pre im b' X' s e hi' h1' h2'
  rcases update_sim im ord ord' hv hv' (chooseT b s e) _ _ (hs.addToValidate s pe) w w' q p p' with ⟨e1, e2⟩ | h
  · exact Or.inl ⟨_, _, e1, e2⟩
  · exact Or.inr h


theorem Sim.appendData {c c' : Builder} (h : Sim c c') (p : Key × Key) :
    Sim { c with dataEdges := c.dataEdges ++ [p] } { c' with dataEdges := c'.dataEdges ++ [p] } := by
  refine ⟨?_, h.err, h.tin, h.tout, h.pend⟩
  have hfr := h.fr
  simp only [Builder.simFrame, Prod.mk.injEq] at hfr ⊢
  obtain ⟨h1, h2, h3, h4, h5, h6, h7, h8, h9, h10, h11, h12, h13⟩ := hfr
  simp only [h1, h2, h3, h4, h5, h6, h7, h8, h9, h10, h11, h12, h13, and_self]

theorem isEmpty_append_singleton {α : Type} (l : List α) (x : α) : (l ++ [x]).isEmpty = false := by
  cases l <;> rfl

theorem Sim.edgeCtl {b b' : Builder} (h : Sim b b') (s e : Key) : Sim (edgeCtl b s e) (edgeCtl b' s e) := by
  refine ⟨?_, h.err, h.tin, h.tout, h.pend⟩
  have hfr := h.fr
  simp only [Builder.simFrame, Prod.mk.injEq, EinoV.Build.edgeCtl] at hfr ⊢
  obtain ⟨h1, h2, h3, h4, h5, h6, h7, h8, h9, h10, h11, h12, h13⟩ := hfr
  refine ⟨h1, h2, h3, h4, by rw [h5], h6, h7, h8, h9, h10, h11, ?_, ?_⟩
  · by_cases hst : s = START
    · simp only [hst, ↓reduceIte, isEmpty_append_singleton]
    · simp only [hst, ↓reduceIte]; exact h12
  · by_cases hen : e = END
    · simp only [hen, ↓reduceIte, isEmpty_append_singleton]
    · simp only [hen, ↓reduceIte]; exact h13

theorem addEdge_sim (f : Facts) (hf : f.Guarded) (im : Impl) (ord ord' : Ord) (hv : ord.Valid) (hv' : ord'.Valid)
    (b b' : Builder) (hs : Sim b b') (hi : Inv im b) (hi' : Inv im b') (s e : Key) :
    (addEdge f im ord b s e false false none).2.cls = (addEdge f im ord' b' s e false false none).2.cls ∧
    (Sim (addEdge f im ord b s e false false none).1 (addEdge f im ord' b' s e false false none).1 ∨
     BothErr (addEdge f im ord b s e false false none).1 (addEdge f im ord' b' s e false false none).1) := by
  unfold addEdge
  simp only [hf.edge, Guards.all, ↓reduceIte, hs.err.1, hs.err.2, Bool.true_and, hs.compiled, Bool.and_self,
    Bool.false_eq_true]
  cases hc : b.compiled
  · simp only [Bool.false_eq_true, ↓reduceIte]
    apply guarded_sim (R := Sim) _ rfl b b' hs _ _ _ hs
    rw [addEdgeBody_eq, addEdgeBody_eq, edgeStruct_sim hs]
    rcases hst : edgeStruct b s e with _ | k
    · simp only
      -- structural checks passed: the nodes exist
      have hex : (b.hasNode s = true ∨ b.nodeOut s ≠ none) ∧ (b.hasNode e = true ∨ b.nodeIn e ≠ none) := by
        unfold edgeStruct at hst
        by_cases h1 : s = END
        · simp [h1] at hst
        · by_cases h2 : e = START
          · simp [h1, h2] at hst
          · by_cases h3 : (!b.hasNode s && s != START) = true
            · simp [h1, h2, h3] at hst
            · by_cases h4 : (!b.hasNode e && e != END) = true
              · simp [h1, h2, h3, h4] at hst
              · constructor
                · by_cases hh : b.hasNode s = true
                  · exact Or.inl hh
                  · right
                    have : s = START := by simpa [hh] using h3
                    simp [Builder.nodeOut, this]
                · by_cases hh : b.hasNode e = true
                  · exact Or.inl hh
                  · right
                    have : e = END := by simpa [hh] using h4
                    unfold Builder.nodeIn
                    by_cases h5 : e = START
                    · simp [h5]
                    · subst this; simp only [h5, ↓reduceIte]; simp
      have hic : InvC im (edgeCtl b s e) [] := ⟨hi.c.wf, hi.c.i2, hi.c.pn, hi.c.conn⟩
      have hic' : InvC im (edgeCtl b' s e) [] := ⟨hi'.c.wf, hi'.c.i2, hi'.c.pn, hi'.c.conn⟩
      rcases data_sim im ord ord' hv hv' _ _ [] [] s e (hs.edgeCtl s e) hic hic' hex.1 hex.2 with
        ⟨k, k', e1, e2⟩ | ⟨c, c', e1, e2, hsim⟩
      · rw [e1, e2]; exact Or.inl ⟨k, k', rfl, rfl⟩
      · rw [e1, e2]; exact Or.inr ⟨_, _, rfl, rfl, hsim.appendData (s, e)⟩
    · exact Or.inl ⟨k, k, rfl, rfl⟩
  · simp only [↓reduceIte]
    exact ⟨by simp, Or.inl hs⟩


/-! ### Compile -/

theorem hasPending_iff (b : Builder) : b.hasPending = true ↔ ∃ s x, x ∈ getSlice b.toValidate s := by
  unfold Builder.hasPending
  simp only [List.any_eq_true, Bool.not_eq_true', Prod.exists]
  constructor
  · rintro ⟨k, l, _, hne⟩
    rcases hg : getSlice b.toValidate k with _ | ⟨x, xs⟩
    · simp [hg] at hne
    · exact ⟨k, x, by rw [hg]; exact List.mem_cons_self⟩
  · rintro ⟨s, x, hx⟩
    obtain ⟨p, hp, hp1⟩ := List.mem_map.mp (mem_getSlice_key hx)
    refine ⟨p.1, p.2, hp, ?_⟩
    rw [hp1]
    rcases hg : getSlice b.toValidate s with _ | ⟨y, ys⟩
    · rw [hg] at hx; simp at hx
    · rfl

theorem Sim.hasPending {b b' : Builder} (h : Sim b b') : b'.hasPending = b.hasPending := by
  have : b'.hasPending = true ↔ b.hasPending = true := by
    rw [hasPending_iff, hasPending_iff]
    constructor
    · rintro ⟨s, x, hx⟩; exact ⟨s, x, (h.pend s x).mp hx⟩
    · rintro ⟨s, x, hx⟩; exact ⟨s, x, (h.pend s x).mpr hx⟩
  cases h1 : b'.hasPending <;> cases h2 : b.hasPending <;> simp_all

/-- what Kahn's loop reads of the builder -/
def dagView (b : Builder) := (b.nodes.map (·.key), b.controlEdges, b.branches)

theorem validateDAG_congr {b b' : Builder} (h : dagView b' = dagView b) (ord : Ord) :
    validateDAG b' ord = validateDAG b ord := by
  simp only [dagView, Prod.mk.injEq] at h
  obtain ⟨hk, hc, hb⟩ := h
  have hsucc : ∀ k, b'.ctrlSucc k = b.ctrlSucc k := by intro k; simp [Builder.ctrlSucc, hc, hb]
  have hpred : ∀ k, b'.ctrlPred k = b.ctrlPred k := by intro k; simp [Builder.ctrlPred, hc, hb]
  have hinit : kahnInit b' = kahnInit b := by
    unfold kahnInit
    have e1 : ∀ (x : Builder), (x.nodes.map fun n =>
        let ps := x.ctrlPred n.key
        (n.key, (ps.length : Int) - (countP (· = START) ps : Nat))) =
        (x.nodes.map (·.key)).map (fun k => (k, ((x.ctrlPred k).length : Int) - (countP (· = START) (x.ctrlPred k) : Nat))) := by
      intro x; simp [List.map_map, Function.comp_def]
    rw [e1 b', e1 b, hk]
    congr 1
    funext k; rw [hpred k]
  have hround : ∀ ks m ch, kahnRound b' ks m ch = kahnRound b ks m ch := by
    intro ks
    induction ks with
    | nil => intro m ch; rfl
    | cons k ks ih =>
      intro m ch
      simp only [kahnRound, hsucc k]
      split
      · exact ih _ _
      · exact ih _ _
  have hloop : ∀ fuel m, kahnLoop b' ord fuel m = kahnLoop b ord fuel m := by
    intro fuel
    induction fuel with
    | zero => intro m; rfl
    | succ n ih =>
      intro m
      simp only [kahnLoop, hround]
      split
      · exact ih _
      · rfl
  have hlen : b'.nodes.length = b.nodes.length := by
    have := congrArg List.length hk; simpa using this
  unfold validateDAG
  rw [hlen, hinit, hloop]

theorem Sim.dagView {b b' : Builder} (h : Sim b b') : EinoV.Build.dagView b' = EinoV.Build.dagView b := by
  have hfr := h.fr
  simp only [Builder.simFrame, Prod.mk.injEq] at hfr
  obtain ⟨h1, h2, h3, h4, h5, h6, h7, h8, h9, h10, h11, h12, h13⟩ := hfr
  have hk : b'.nodes.map (·.key) = b.nodes.map (·.key) := by
    rw [← keysOf_fst, ← keysOf_fst]; exact congrArg _ h11
  simp only [EinoV.Build.dagView, hk, h5, h7]

theorem compile_sim (f : Facts) (hm : f.compileMutates = false) (ord ord' : Ord)
    (hkahn : ∀ x, KeysOK x → validateDAG x ord' = validateDAG x ord)
    (b b' : Builder) (hs : Sim b b') (hko : KeysOK b) (o : COpts) :
    (compile f ord b o).2.1.cls = (compile f ord' b' o).2.1.cls ∧
    (Sim (compile f ord b o).1 (compile f ord' b' o).1 ∨ BothErr (compile f ord b o).1 (compile f ord' b' o).1) := by
  have hfr := hs.fr
  simp only [Builder.simFrame, Prod.mk.injEq] at hfr
  obtain ⟨h1, h2, h3, h4, h5, h6, h7, h8, h9, h10, h11, h12, h13⟩ := hfr
  have hpre : compilePre f b' o = compilePre f b o := by
    unfold compilePre
    rw [h1, h12, h13, hs.hasPending, hs.hasUntyped hko, h8]
  have hdag : isDag b' o = isDag b o := by unfold isDag; rw [h1]
  have hval : validateDAG b' ord' = validateDAG b ord := by
    rw [validateDAG_congr hs.dagView ord']
    exact hkahn b hko
  have hpost : compilePost b' ord' o = compilePost b ord o := by
    unfold compilePost
    rw [hdag, hval, hs.hasUntyped hko]
  unfold compile
  simp only [hs.err.1, hs.err.2, hpre, mutatePre_off f hm, hpost]
  rcases compilePre f b o with _ | k
  · simp only
    rcases compilePost b ord o with _ | oc
    · simp only
      refine ⟨by simp, Or.inl ⟨?_, hs.err, hs.tin, hs.tout, hs.pend⟩⟩
      simp only [Builder.simFrame, Builder.setCompiled, h1, h2, h3, h4, h5, h6, h7, h8, h10, h11, h12, h13]
    · exact ⟨by simp, Or.inl hs⟩
  · exact ⟨by simp, Or.inl hs⟩


/-! ### AddBranch -/

def branchStruct (b : Builder) (s : Key) (ends : List Key) : Option ErrKind :=
  if s = END then some .endAsStart
  else if !b.hasNode s && s != START then some .branchUnknownStart
  else if ends.length = 1 then some .branchSingle
  else none

/-- the (guarded) typing of a pass-through start node -/
def branchTyped (b : Builder) (s : Key) (t : Ty) : Builder :=
  if (s != START && isPassthrough b s && (b.nodeIn s).isNone) = true then b.setTy s t else b

theorem addBranchBody_eq (f : Facts) (hg : f.branchGuarded = true) (hpr : f.branchPropagates = true)
    (im : Impl) (ord : Ord) (b : Builder) (s : Key) (t : Ty) (ends : List Key) :
    addBranchBody f im ord b s t ends false =
      match branchStruct b s ends with
      | some k => .error k
      | none =>
        match checkAssignable im ((branchTyped b s t).nodeOut s) (some t) with
        | .mustNot => .error .branchMismatch
        | r =>
          match update im ord { branchTyped b s t with
              preBranch := (branchTyped b s t).preBranch ++ [(s, r == .may)] } with
          | .error k => .error k
          | .ok b3 =>
            match branchEnds im ord s (ord.ends b3 ends) b3 with
            | .error k => .error k
            | .ok b4 =>
              .ok { b4 with branches := b4.branches ++ [({ src := s, inTy := t, ends := ends, noData := false } : BranchRec)] } := by
  unfold addBranchBody branchStruct
  simp only [hg, hpr, Bool.not_true, Bool.false_or, ↓reduceIte, Bool.false_eq_true]
  by_cases h1 : s = END
  · simp [h1]
  · by_cases h2 : (!b.hasNode s && s != START) = true
    · simp only [h1, h2, ↓reduceIte]
    · by_cases h3 : ends.length = 1
      · simp only [h1, h2, h3, ↓reduceIte, Bool.false_eq_true]
      · simp only [h1, h2, h3, ↓reduceIte, Bool.false_eq_true]
        rfl

theorem branchStruct_sim {b b' : Builder} (hs : Sim b b') (s : Key) (ends : List Key) :
    branchStruct b' s ends = branchStruct b s ends := by
  unfold branchStruct; rw [hs.hasNode]

theorem Sim.setTy {b b' : Builder} (hs : Sim b b') (k : Key) (t : Ty) : Sim (b.setTy k t) (b'.setTy k t) := by
  refine ⟨?_, hs.err, ?_, ?_, hs.pend⟩
  · have hfr := hs.fr
    simp only [Builder.simFrame, Prod.mk.injEq, Builder.setTy, setTyIn_keys] at hfr ⊢
    exact hfr
  · intro x
    by_cases hx : x = k
    · subst hx
      by_cases hr : x = START ∨ x = END
      · rw [nodeIn_setTy_reserved _ _ _ _ hr, nodeIn_setTy_reserved _ _ _ _ hr]; exact hs.tin x
      · have h1 : x ≠ START := fun e => hr (Or.inl e)
        have h2 : x ≠ END := fun e => hr (Or.inr e)
        rw [nodeIn_setTy_self _ _ _ h1 h2, nodeIn_setTy_self _ _ _ h1 h2, hs.hasNode]
    · rw [nodeIn_setTy_ne _ _ _ _ hx, nodeIn_setTy_ne _ _ _ _ hx]; exact hs.tin x
  · intro x
    by_cases hx : x = k
    · subst hx
      by_cases hr : x = START ∨ x = END
      · rw [nodeOut_setTy_reserved _ _ _ _ hr, nodeOut_setTy_reserved _ _ _ _ hr]; exact hs.tout x
      · have h1 : x ≠ START := fun e => hr (Or.inl e)
        have h2 : x ≠ END := fun e => hr (Or.inr e)
        rw [nodeOut_setTy_self _ _ _ h1 h2, nodeOut_setTy_self _ _ _ h1 h2, hs.hasNode]
    · rw [nodeOut_setTy_ne _ _ _ _ hx, nodeOut_setTy_ne _ _ _ _ hx]; exact hs.tout x

theorem Sim.branchTyped {b b' : Builder} (hs : Sim b b') (s : Key) (t : Ty) :
    Sim (branchTyped b s t) (branchTyped b' s t) := by
  unfold EinoV.Build.branchTyped
  rw [hs.isPassthrough, hs.tin]
  split
  · exact hs.setTy s t
  · exact hs

/-- after the typing step: the work-list preconditions hold, known types are kept -/
theorem branchTyped_pre (im : Impl) (b : Builder) (s : Key) (t : Ty) (h : Inv im b) :
    WF (branchTyped b s t) ∧ Q (branchTyped b s t) t ∧ PN (branchTyped b s t) ∧
    Mono b (branchTyped b s t) ∧ Frame b (branchTyped b s t) ∧
    (branchTyped b s t).toValidate = b.toValidate := by
  unfold branchTyped
  split
  · rename_i hcond
    have hin : b.nodeIn s = none := by
      simp only [Bool.and_eq_true, Option.isNone_iff_eq_none] at hcond; exact hcond.2
    have hon : b.nodeOut s = none := (h.c.wf.untyped_iff s).mp hin
    have hst := StepT.setTy b s t (Or.inl hin) (Or.inl hon)
    exact ⟨h.c.wf.setTy s t, (h.c.i2.q t).step hst (fun _ _ hx => hx),
      h.c.pn.step hst.mono (Frame.setTy b s t) (fun _ _ hx => hx), hst.mono, Frame.setTy b s t, rfl⟩
  · exact ⟨h.c.wf, h.c.i2.q t, h.c.pn, Mono.refl _, Frame.refl _, rfl⟩

/-- the state after the propagating run of the work list satisfies the connection invariant -/
theorem branch_mid_inv (im : Impl) (ord : Ord) (hv : ord.Valid) (b b3 : Builder) (s : Key) (t : Ty) (flag : Bool)
    (h : Inv im b) (hex : b.hasNode s = true ∨ s = START)
    (hupd : update im ord { branchTyped b s t with preBranch := (branchTyped b s t).preBranch ++ [(s, flag)] } = .ok b3) :
    InvC im b3 [] ∧ (b3.hasNode s = true ∨ b3.nodeOut s ≠ none) := by
  obtain ⟨hw1, hq1, hp1, hm1, hf1, htv1⟩ := branchTyped_pre im b s t h
  let b2 : Builder := { branchTyped b s t with preBranch := (branchTyped b s t).preBranch ++ [(s, flag)] }
  have hw2 : WF b2 := hw1
  have hq2 : Q b2 t := hq1
  have hp2 : PN b2 := hp1
  obtain ⟨hu, hi3, hpn3⟩ := update_spec im ord hv t b2 b3 hw2 hq2 hp2 hupd
  have hm13 : Mono (branchTyped b s t) b3 := ⟨hu.step.mono.tin, hu.step.mono.tout, hu.step.mono.may⟩
  have hde3 : b3.dataEdges = b.dataEdges := by rw [hu.frame.dataEdges]; exact hf1.dataEdges
  have hbr3 : b3.branches = b.branches := by rw [hu.frame.branches]; exact hf1.branches
  refine ⟨⟨hu.wf, hi3, hpn3, ?_⟩, ?_⟩
  · intro s' e' hc
    rcases hc with hc | hc
    · have hcb : Conn b s' e' := by
        unfold Conn at hc ⊢; rw [hde3, hbr3] at hc; exact hc
      rcases h.c.conn s' e' (Or.inl hcb) with ⟨x, hx, hd⟩ | hsd
      · have hx1 : x ∈ getSlice b2.toValidate s' := by
          show x ∈ getSlice (branchTyped b s t).toValidate s'; rw [htv1]; exact hx
        rcases hu.resolved s' x hx1 with r' | r'
        · exact Or.inl ⟨x, r', hd⟩
        · exact Or.inr (hd ▸ r')
      · exact Or.inr ((hsd.mono hm1).mono hm13)
    · simp at hc
  · rcases hex with hh | hst'
    · left
      have e1 : b3.hasNode s = b2.hasNode s := hu.frame.hasNode s
      have e2 : b2.hasNode s = (branchTyped b s t).hasNode s := rfl
      rw [e1, e2, hf1.hasNode]; exact hh
    · right
      have : b.nodeOut s = some b.inT := by simp [Builder.nodeOut, hst']
      rw [hm13.tout s _ (hm1.tout s _ this)]; simp

theorem branchEnds_sim (im : Impl) (ord ord' : Ord) (hv : ord.Valid) (hv' : ord'.Valid) (s : Key) :
    ∀ (es : List Key) (b b' : Builder) (X X' : List (Key × Key)), Sim b b' → InvC im b X → InvC im b' X' →
      (b.hasNode s = true ∨ b.nodeOut s ≠ none) →
      (∃ k k', branchEnds im ord s es b = .error k ∧ branchEnds im ord' s es b' = .error k') ∨
      (∃ c c', branchEnds im ord s es b = .ok c ∧ branchEnds im ord' s es b' = .ok c' ∧ Sim c c') := by
  intro es
  induction es with
  | nil => intro b b' _ _ hs _ _ _; exact Or.inr ⟨b, b', rfl, rfl, hs⟩
  | cons e es ih =>
    intro b b' X X' hs hi hi' hex
    simp only [branchEnds, hs.hasNode]
    by_cases hchk : (!b.hasNode e && e != END) = true
    · simp only [hchk, ↓reduceIte]
      exact Or.inl ⟨_, _, rfl, rfl⟩
    · simp only [hchk, Bool.false_eq_true, ↓reduceIte]
      have he : b.hasNode e = true ∨ b.nodeIn e ≠ none := by
        by_cases hh : b.hasNode e = true
        · exact Or.inl hh
        · right
          have : e = END := by simpa [hh] using hchk
          unfold Builder.nodeIn
          by_cases h3 : e = START
          · simp [h3]
          · subst this; simp only [h3, ↓reduceIte]; simp
      have hex' : b'.hasNode s = true ∨ b'.nodeOut s ≠ none := by rw [hs.hasNode, hs.tout]; exact hex
      have he' : b'.hasNode e = true ∨ b'.nodeIn e ≠ none := by rw [hs.hasNode, hs.tin]; exact he
      rcases data_sim im ord ord' hv hv' b b' X X' s e hs hi hi' hex he with ⟨k, k', e1, e2⟩ | ⟨c, c', e1, e2, hsim⟩
      · simp only [e1, e2]; exact Or.inl ⟨_, _, rfl, rfl⟩
      · simp only [e1, e2]
        obtain ⟨hc1, hfr, hmo⟩ := data_step im ord hv b c X s e hi hex he e1
        obtain ⟨hc1', _, _⟩ := data_step im ord' hv' b' c' X' s e hi' hex' he' e2
        let c1 : Builder := { c with startNodes := if s = START then c.startNodes ++ [e] else c.startNodes,
                                     endNodes := if e = END then c.endNodes ++ [s] else c.endNodes }
        let c1' : Builder := { c' with startNodes := if s = START then c'.startNodes ++ [e] else c'.startNodes,
                                       endNodes := if e = END then c'.endNodes ++ [s] else c'.endNodes }
        have hs1 : Sim c1 c1' := by
          refine ⟨?_, hsim.err, hsim.tin, hsim.tout, hsim.pend⟩
          have hfr' := hsim.fr
          simp only [Builder.simFrame, Prod.mk.injEq] at hfr' ⊢
          obtain ⟨h1, h2, h3, h4, h5, h6, h7, h8, h9, h10, h11, h12, h13⟩ := hfr'
          refine ⟨h1, h2, h3, h4, h5, h6, h7, h8, h9, h10, h11, ?_, ?_⟩
          · show (if s = START then c'.startNodes ++ [e] else c'.startNodes).isEmpty =
                 (if s = START then c.startNodes ++ [e] else c.startNodes).isEmpty
            by_cases hst : s = START
            · simp only [hst, ↓reduceIte, isEmpty_append_singleton]
            · simp only [hst, ↓reduceIte]; exact h12
          · show (if e = END then c'.endNodes ++ [s] else c'.endNodes).isEmpty =
                 (if e = END then c.endNodes ++ [s] else c.endNodes).isEmpty
            by_cases hen : e = END
            · simp only [hen, ↓reduceIte, isEmpty_append_singleton]
            · simp only [hen, ↓reduceIte]; exact h13
        have hic : InvC im c1 ((s, e) :: X) := ⟨hc1.wf, hc1.i2, hc1.pn, hc1.conn⟩
        have hic' : InvC im c1' ((s, e) :: X') := ⟨hc1'.wf, hc1'.i2, hc1'.pn, hc1'.conn⟩
        have hex1 : c1.hasNode s = true ∨ c1.nodeOut s ≠ none := by
          rcases hex with hh | hh
          · left; show c.hasNode s = true; rw [hfr.hasNode]; exact hh
          · right
            rcases ho : b.nodeOut s with _ | A
            · exact absurd ho hh
            · show c.nodeOut s ≠ none
              rw [hmo.tout s A ho]; simp
        exact ih c1 c1' _ _ hs1 hic hic' hex1


end EinoV.Build
