/-
  C05 / C06 — helper lemmas about the interrupt-aware run loop (no property statements here).
-/
import EinoV.Model.C05

namespace EinoV.Interrupt
open EinoV.Engine

variable {V S X : Type}

/-! ### events of one superstep -/

/-- events produced by the node bodies of a superstep -/
def Ev.isBody : Ev V S X → Bool
  | .start .. => true | .finish .. => true | .nested .. => true | _ => false

theorem taskEvs_body (t : Task V X) (bo : BodyOut V S X) : ∀ e ∈ taskEvs t bo, e.isBody = true := by
  intro e he
  unfold taskEvs at he
  simp only [List.mem_append, List.mem_cons] at he
  rcases he with (rfl | he) | he
  · rfl
  · split at he
    · simp at he
    · simp only [List.mem_cons, List.not_mem_nil, or_false] at he; subst he; rfl
  · split at he
    · simp only [List.mem_cons, List.not_mem_nil, or_false] at he; subst he; rfl
    · simp at he

theorem runBodies_evs_body (r : IRunner V S X) : ∀ (ts : List (Task V X)) (st : S),
    ∀ e ∈ (runBodies r ts st).2.2, e.isBody = true := by
  intro ts
  induction ts with
  | nil => intro st e he; simp [runBodies] at he
  | cons t rest ih =>
    intro st e he
    simp only [runBodies, List.mem_append] at he
    rcases he with he | he
    · exact taskEvs_body _ _ e he
    · exact ih _ e he

/-- the body events of the superstep started from `ls` -/
def bodyEvs (r : IRunner V S X) (ls : LoopSt V S X) : List (Ev V S X) :=
  (runBodies r (runPres r ls.tasks ls.st).1 (runPres r ls.tasks ls.st).2).2.2

theorem stepI_evs (ops : ValOps V) (r : IRunner V S X) (sched : ISched V S X) (ls : LoopSt V S X) :
    (stepI ops r sched ls).1 = Ev.step (stepTasks r ls) :: bodyEvs r ls := rfl

theorem bodyEvs_body (r : IRunner V S X) (ls : LoopSt V S X) : ∀ e ∈ bodyEvs r ls, e.isBody = true :=
  runBodies_evs_body r _ _

theorem topSteps_append (l1 l2 : List (Ev V S X)) : topSteps (l1 ++ l2) = topSteps l1 ++ topSteps l2 := by
  induction l1 with
  | nil => rfl
  | cons e rest ih => cases e <;> simp [topSteps, ih]

theorem topSteps_body (l : List (Ev V S X)) (h : ∀ e ∈ l, e.isBody = true) : topSteps l = [] := by
  induction l with
  | nil => rfl
  | cons e rest ih =>
    have he := h e (by simp)
    have hr := ih (fun e' h' => h e' (by simp [h']))
    cases e <;> simp_all [topSteps, Ev.isBody]

theorem topSteps_intrEvs (isSub hasID : Bool) (info : Info S X) :
    topSteps (intrEvs (V := V) isSub hasID info) = [] := by
  unfold intrEvs; split <;> simp [topSteps]

theorem topSteps_stepI (ops : ValOps V) (r : IRunner V S X) (sched : ISched V S X) (ls : LoopSt V S X) :
    topSteps (stepI ops r sched ls).1 = [stepTasks r ls] := by
  rw [stepI_evs]; simp [topSteps, topSteps_body _ (bodyEvs_body r ls)]

/-! ### pre-handlers keep keys and nested checkpoints -/

theorem preOne_key (r : IRunner V S X) (t : Task V X) (st : S) :
    (preOne r t st).1.key = t.key ∧ (preOne r t st).1.sub = t.sub ∧ (preOne r t st).1.skipPre = t.skipPre := by
  unfold preOne
  split
  · simp
  · split
    · simp
    · split <;> simp

theorem runPres_map (r : IRunner V S X) : ∀ (ts : List (Task V X)) (st : S),
    (runPres r ts st).1.map (fun t => (t.key, t.sub.isSome)) = ts.map (fun t => (t.key, t.sub.isSome)) := by
  intro ts
  induction ts with
  | nil => intro st; rfl
  | cons t rest ih =>
    intro st
    simp only [runPres, List.map_cons, ih]
    have := preOne_key r t st
    simp [this.1, this.2.1]

theorem stepTasks_eq (r : IRunner V S X) (ls : LoopSt V S X) :
    stepTasks r ls = ls.tasks.map (fun t => (t.key, t.sub.isSome)) := runPres_map r _ _

/-! ### getHitKey -/

theorem mem_hitKeys {α} (ts : List (Key × α)) (keys : List Key) (k : Key) :
    k ∈ hitKeys ts keys ↔ (∃ v, (k, v) ∈ ts) ∧ k ∈ keys := by
  unfold hitKeys
  simp only [List.mem_flatMap, List.mem_map, List.mem_filter, beq_iff_eq]
  constructor
  · rintro ⟨⟨k', v⟩, hmem, ⟨a, ⟨ha, rfl⟩, rfl⟩⟩
    exact ⟨⟨v, hmem⟩, ha⟩
  · rintro ⟨⟨v, hmem⟩, hk⟩
    exact ⟨(k, v), hmem, ⟨k, ⟨hk, rfl⟩, rfl⟩⟩

theorem hitKeys_nil_iff {α} (ts : List (Key × α)) (keys : List Key) :
    hitKeys ts keys = [] ↔ ∀ t ∈ ts, t.1 ∉ keys := by
  constructor
  · intro h t ht hk
    have : t.1 ∈ hitKeys ts keys := (mem_hitKeys ts keys t.1).2 ⟨⟨t.2, ht⟩, hk⟩
    rw [h] at this; simp at this
  · intro h
    apply List.eq_nil_iff_forall_not_mem.2
    intro k hk
    obtain ⟨⟨v, hv⟩, hkeys⟩ := (mem_hitKeys ts keys k).1 hk
    exact h (k, v) hv hkeys

theorem hitKeys_nil_keys {α} (ts : List (Key × α)) : hitKeys ts [] = [] := by
  rw [hitKeys_nil_iff]; intro t _ h; simp at h

theorem afterHits_nil_keys (dones : List (Done V)) : afterHits [] dones = [] := by
  simp [afterHits]

/-! ### what `finishStep` continues with -/

theorem finishStep_next (ops : ValOps V) (r : IRunner V S X) (stale : List (Key × X)) (c : CoreOut V S X)
    (ls' : LoopSt V S X) (h : finishStep ops r stale c = .next ls') :
    ∃ cm ts dones st, c = .next cm ts dones st ∧
      ls' = { cm := cm, tasks := mkTasks stale ts, st := st, stale := stale } ∧
      hitKeys ts r.intBefore = [] ∧ afterHits r.intAfter dones = [] := by
  cases c with
  | done v => simp [finishStep] at h
  | fail e => simp [finishStep] at h
  | sr cm restore subs reruns dones st => simp [finishStep] at h
  | next cm ts dones st =>
    simp only [finishStep] at h
    split at h
    · rename_i hc
      simp only [Bool.and_eq_true, List.isEmpty_iff] at hc
      injection h with h
      exact ⟨cm, ts, dones, st, rfl, h.symm, hc.1, hc.2⟩
    · split at h <;> simp at h

theorem mkTasks_keys (stale : List (Key × X)) (ts : List (Key × V)) :
    (mkTasks stale ts).map (·.key) = ts.map (·.1) := by
  simp [mkTasks]

/-- the tasks the loop goes on with never hit the interrupt-before list -/
theorem finishStep_next_noBefore (ops : ValOps V) (r : IRunner V S X) (stale : List (Key × X))
    (c : CoreOut V S X) (ls' : LoopSt V S X) (h : finishStep ops r stale c = .next ls') :
    (∀ t ∈ ls'.tasks, t.key ∉ r.intBefore) ∧ ls'.stale = stale := by
  obtain ⟨cm, ts, dones, st, _, rfl, hb, _⟩ := finishStep_next ops r stale c ls' h
  refine ⟨?_, rfl⟩
  intro t ht
  simp only [mkTasks, List.mem_map] at ht
  obtain ⟨p, hp, rfl⟩ := ht
  exact (hitKeys_nil_iff ts r.intBefore).1 hb p hp

/-! ### supersteps of a whole call -/

/-- no task of these supersteps is an interrupt-before node -/
def StepsAvoid (bs : List Key) (steps : List (List (Key × Bool))) : Prop :=
  ∀ ts ∈ steps, ∀ p ∈ ts, p.1 ∉ bs

theorem loopI_topSteps (ops : ValOps V) (r : IRunner V S X) (sched : ISched V S X) (isSub hasID : Bool) :
    ∀ (fuel : Nat) (ls : LoopSt V S X),
      topSteps (loopI ops r sched isSub hasID fuel ls).evs = [] ∨
      ∃ rest, topSteps (loopI ops r sched isSub hasID fuel ls).evs = stepTasks r ls :: rest ∧
        StepsAvoid r.intBefore rest := by
  intro fuel
  induction fuel with
  | zero => intro ls; left; simp [loopI, topSteps]
  | succ n ih =>
    intro ls
    right
    unfold loopI
    split
    · exact ⟨[], by simp [topSteps_stepI], by intro ts h; simp at h⟩
    · exact ⟨[], by simp [topSteps_stepI], by intro ts h; simp at h⟩
    · exact ⟨[], by simp [topSteps_append, topSteps_stepI, topSteps_intrEvs], by intro ts h; simp at h⟩
    · rename_i ls' hnext
      have hnb := finishStep_next_noBefore ops r ls.stale _ ls' hnext
      simp only [topSteps_append, topSteps_stepI]
      refine ⟨_, rfl, ?_⟩
      rcases ih ls' with h0 | ⟨rest, hr, havoid⟩
      · rw [h0]; intro ts h; simp at h
      · rw [hr]
        intro ts hts
        have hts : ts = stepTasks r ls' ∨ ts ∈ rest := by simpa using hts
        rcases hts with rfl | hts
        · intro p hp
          rw [stepTasks_eq] at hp
          simp only [List.mem_map] at hp
          obtain ⟨t, ht, rfl⟩ := hp
          exact hnb.1 t ht
        · exact havoid ts hts

/-! ### interrupt-before: what a checkpoint restores is what the interrupt reported -/

/-- `k` is reported by the interrupt: in BeforeNodes, in RerunNodes, or as an interrupted nested graph -/
def Info.lists (i : Info S X) (k : Key) : Prop :=
  k ∈ i.before ∨ k ∈ i.rerun ∨ k ∈ i.subs.map (·.1)

/-- every interrupt-before node among the tasks a checkpoint restores was reported with the interrupt -/
def CPListed (bs : List Key) (cp : Checkpoint V S X) (info : Info S X) : Prop :=
  ∀ k ∈ cp.inputs.map (·.1), k ∈ bs → info.lists k

theorem sr_listed : ∀ (coll : List (Key × TaskOut V X)) (k : Key),
    k ∈ (coll.filter (fun o => o.2.isSR)).map (·.1) → k ∈ rerunOf coll ∨ k ∈ (subIntOf coll).map (·.1) := by
  intro coll
  induction coll with
  | nil => intro k h; simp at h
  | cons o rest ih =>
    intro k h
    obtain ⟨k', out⟩ := o
    cases out with
    | done v =>
      have : k ∈ (rest.filter (fun o => o.2.isSR)).map (·.1) := by simpa [TaskOut.isSR] using h
      simpa [rerunOf, subIntOf] using ih k this
    | fail e =>
      have : k ∈ (rest.filter (fun o => o.2.isSR)).map (·.1) := by simpa [TaskOut.isSR] using h
      simpa [rerunOf, subIntOf] using ih k this
    | rerun =>
      have : k = k' ∨ k ∈ (rest.filter (fun o => o.2.isSR)).map (·.1) := by simpa [TaskOut.isSR] using h
      rcases this with rfl | h'
      · left; simp [rerunOf]
      · rcases ih k h' with h1 | h1
        · left; simp [rerunOf, h1]
        · right; simp only [subIntOf]; exact h1
    | subInt x =>
      have : k = k' ∨ k ∈ (rest.filter (fun o => o.2.isSR)).map (·.1) := by simpa [TaskOut.isSR] using h
      rcases this with rfl | h'
      · right; simp [subIntOf]
      · rcases ih k h' with h1 | h1
        · left; simp only [rerunOf]; exact h1
        · right; simp only [subIntOf, List.map_cons, List.mem_cons]; exact Or.inr h1

theorem coreOut_sr_listed (ops : ValOps V) (r : IRunner V S X) (sched : ISched V S X) (cm : Chans V)
    (bres : List (Key × BodyRes V S X)) (st2 : S) (cm' : Chans V) (restore : List Key) (subs : List (Key × X))
    (reruns : List Key) (dones : List (Done V)) (st : S)
    (h : coreOut ops r sched cm bres st2 = .sr cm' restore subs reruns dones st) :
    ∀ k ∈ restore, k ∈ reruns ∨ k ∈ subs.map (·.1) := by
  unfold coreOut at h
  simp only at h
  split at h
  · simp at h
  · split at h
    · split at h
      · simp at h
      · injection h with _ h2 h3 h4 _ _
        subst h2 h3 h4
        exact sr_listed _
    · split at h
      · simp at h
      · split at h <;> simp at h

theorem finishStep_intr_listed (ops : ValOps V) (r : IRunner V S X) (stale : List (Key × X))
    (c : CoreOut V S X) (cp : Checkpoint V S X) (info : Info S X)
    (hsr : ∀ cm restore subs reruns dones st, c = .sr cm restore subs reruns dones st →
      ∀ k ∈ restore, k ∈ reruns ∨ k ∈ subs.map (·.1))
    (h : finishStep ops r stale c = .intr cp info) : CPListed r.intBefore cp info := by
  cases c with
  | done v => simp [finishStep] at h
  | fail e => simp [finishStep] at h
  | sr cm restore subs reruns dones st =>
    simp only [finishStep] at h
    injection h with h1 h2
    subst h1 h2
    intro k hk _
    have hk' : k ∈ restore := by simpa using hk
    rcases hsr cm restore subs reruns dones st rfl k hk' with h | h
    · exact Or.inr (Or.inl h)
    · exact Or.inr (Or.inr h)
  | next cm ts dones st =>
    simp only [finishStep] at h
    split at h
    · simp at h
    · split at h
      · simp at h
      · simp at h
      · rename_i cm2 ts2 _
        injection h with h1 h2
        subst h1 h2
        intro k hk hb
        left
        simp only [simpleCP, List.map_append, List.mem_append, List.mem_map] at hk
        simp only [List.mem_append]
        rcases hk with ⟨p, hp, rfl⟩ | ⟨p, hp, rfl⟩
        · exact Or.inl ((mem_hitKeys ts r.intBefore p.1).2 ⟨⟨p.2, hp⟩, hb⟩)
        · exact Or.inr ((mem_hitKeys ts2 r.intBefore p.1).2 ⟨⟨p.2, hp⟩, hb⟩)

theorem stepI_intr_listed (ops : ValOps V) (r : IRunner V S X) (sched : ISched V S X) (ls : LoopSt V S X)
    (cp : Checkpoint V S X) (info : Info S X) (h : (stepI ops r sched ls).2 = .intr cp info) :
    CPListed r.intBefore cp info := by
  apply finishStep_intr_listed ops r ls.stale _ cp info _ h
  intro cm restore subs reruns dones st hc
  exact coreOut_sr_listed ops r sched _ _ _ cm restore subs reruns dones st hc

theorem loopI_intr_listed (ops : ValOps V) (r : IRunner V S X) (sched : ISched V S X) (isSub hasID : Bool) :
    ∀ (fuel : Nat) (ls : LoopSt V S X) (cp : Checkpoint V S X) (info : Info S X),
      (loopI ops r sched isSub hasID fuel ls).res = .interrupted cp info → CPListed r.intBefore cp info := by
  intro fuel
  induction fuel with
  | zero => intro ls cp info h; simp [loopI] at h
  | succ n ih =>
    intro ls cp info h
    unfold loopI at h
    split at h
    · simp at h
    · simp at h
    · rename_i cp' info' hst
      simp only at h
      injection h with h1 h2
      subst h1 h2
      exact stepI_intr_listed ops r sched ls _ _ hst
    · exact ih _ cp info h

theorem runI_intr_listed (ops : ValOps V) (cfg : Cfg) (r : IRunner V S X) (sched : ISched V S X) (isSub hasID : Bool)
    (inp : V ⊕ Checkpoint V S X) (cp : Checkpoint V S X) (info : Info S X)
    (h : (runI ops cfg r sched isSub hasID inp).res = .interrupted cp info) : CPListed r.intBefore cp info := by
  cases inp with
  | inr cp0 => exact loopI_intr_listed ops r sched isSub hasID _ _ cp info h
  | inl x =>
    simp only [runI] at h
    split at h
    · simp at h
    · simp at h
    · rename_i cm ts _
      split at h
      · injection h with h1 h2
        subst h1 h2
        intro k hk hb
        left
        simp only [simpleCP, List.mem_map] at hk
        obtain ⟨p, hp, rfl⟩ := hk
        exact (mem_hitKeys ts r.intBefore p.1).2 ⟨⟨p.2, hp⟩, hb⟩
      · exact loopI_intr_listed ops r sched isSub hasID _ _ cp info h

/-! ### interrupt-before over one call and over a history -/

/-- One call honours interrupt-before relative to what the previous call (if any) reported: an
    interrupt-before node is submitted only in the very first superstep of the call, and only if the
    previous call's interrupt listed it. -/
def GoodCall (bs : List Key) (prev : Option (Info S X)) (o : Out V S X) : Prop :=
  ∀ (j : Nat) (ts : List (Key × Bool)), (topSteps o.evs)[j]? = some ts → ∀ p ∈ ts, p.1 ∈ bs →
    j = 0 ∧ ∃ info, prev = some info ∧ info.lists p.1

theorem goodCall_of_avoid (bs : List Key) (prev : Option (Info S X)) (o : Out V S X)
    (h : StepsAvoid bs (topSteps o.evs)) : GoodCall bs prev o := by
  intro j ts hj p hp hb
  exact absurd hb (h ts (List.mem_of_getElem? hj) p hp)

theorem runI_fresh_avoid (ops : ValOps V) (cfg : Cfg) (r : IRunner V S X) (sched : ISched V S X) (isSub hasID : Bool)
    (hcfg : cfg.initialTasksChecked = true) (x : V) :
    StepsAvoid r.intBefore (topSteps (runI ops cfg r sched isSub hasID (.inl x)).evs) := by
  simp only [runI]
  split
  · intro ts h; simp [topSteps] at h
  · intro ts h; simp [topSteps] at h
  · rename_i cm ts _
    split
    · intro ts h; simp [topSteps_intrEvs] at h
    · rename_i hc
      have hhit : hitKeys ts r.intBefore = [] := by
        simp only [hcfg, Bool.true_and, Bool.not_eq_true'] at hc
        simpa [List.isEmpty_iff] using hc
      rcases loopI_topSteps ops r sched isSub hasID r.base.fuel
        { cm := cm, tasks := mkTasks [] ts, st := r.initState, stale := [] } with h0 | ⟨rest, hr, havoid⟩
      · rw [h0]; intro ts h; simp at h
      · rw [hr]
        intro ts' hts
        have hts : ts' = stepTasks r { cm := cm, tasks := mkTasks [] ts, st := r.initState, stale := [] } ∨ ts' ∈ rest := by
          simpa using hts
        rcases hts with rfl | hts
        · intro p hp
          rw [stepTasks_eq] at hp
          simp only [mkTasks, List.map_map, List.mem_map] at hp
          obtain ⟨q, hq, rfl⟩ := hp
          exact (hitKeys_nil_iff ts r.intBefore).1 hhit q hq
        · exact havoid ts' hts

theorem runI_resumed_good (ops : ValOps V) (cfg : Cfg) (r : IRunner V S X) (sched : ISched V S X) (isSub hasID : Bool)
    (cp : Checkpoint V S X) (info : Info S X) (hl : CPListed r.intBefore cp info) :
    GoodCall r.intBefore (some info) (runI ops cfg r sched isSub hasID (.inr cp)) := by
  intro j ts hj p hp hb
  simp only [runI] at hj
  rcases loopI_topSteps ops r sched isSub hasID r.base.fuel (restore cfg r cp) with h0 | ⟨rest, hr, havoid⟩
  · rw [h0] at hj; simp at hj
  · rw [hr] at hj
    cases j with
    | succ j' =>
      simp only [List.getElem?_cons_succ] at hj
      exact absurd hb (havoid ts (List.mem_of_getElem? hj) p hp)
    | zero =>
      simp only [List.getElem?_cons_zero, Option.some.injEq] at hj
      subst hj
      refine ⟨rfl, info, rfl, ?_⟩
      rw [stepTasks_eq] at hp
      simp only [restore, restoreTasks, List.map_map, List.mem_map] at hp
      obtain ⟨q, hq, rfl⟩ := hp
      exact hl q.1 (List.mem_map.2 ⟨q, hq, rfl⟩) hb

def Res.info? : Res V S X → Option (Info S X)
  | .interrupted _ i => some i
  | _ => none

/-- every call of a history honours interrupt-before relative to the call before it -/
def HistOK (bs : List Key) : Option (Info S X) → List (Out V S X) → Prop
  | _, [] => True
  | prev, o :: rest => GoodCall bs prev o ∧ HistOK bs o.res.info? rest

theorem resumeLoop_histOK (ops : ValOps V) (cfg : Cfg) (r : IRunner V S X) (sched : ISched V S X)
    (hcfg : cfg.initialTasksChecked = true) :
    ∀ (n : Nat) (inp : V ⊕ Checkpoint V S X) (prev : Option (Info S X)),
      (∀ cp, inp = .inr cp → ∃ info, prev = some info ∧ CPListed r.intBefore cp info) →
      HistOK r.intBefore prev (resumeLoop ops cfg r sched n inp) := by
  intro n
  induction n with
  | zero => intro inp prev _; simp [resumeLoop, HistOK]
  | succ m ih =>
    intro inp prev hin
    have hgood : GoodCall r.intBefore prev (runI ops cfg r sched false true inp) := by
      cases inp with
      | inl x => exact goodCall_of_avoid _ _ _ (runI_fresh_avoid ops cfg r sched false true hcfg x)
      | inr cp =>
        obtain ⟨info, rfl, hl⟩ := hin cp rfl
        exact runI_resumed_good ops cfg r sched false true cp info hl
    unfold resumeLoop
    simp only
    split
    · rename_i cp info hres
      refine ⟨hgood, ?_⟩
      apply ih
      intro cp' hcp'
      injection hcp' with hcp'
      subst hcp'
      exact ⟨info, by simp [hres, Res.info?], runI_intr_listed ops cfg r sched false true inp cp info hres⟩
    · exact ⟨hgood, trivial⟩

/-! ### interrupts are reported; the store is written exactly then -/

theorem stepI_evs_obs (ops : ValOps V) (r : IRunner V S X) (sched : ISched V S X) (ls : LoopSt V S X) :
    ∀ e ∈ (stepI ops r sched ls).1, e.isObs = true := by
  intro e he
  rw [stepI_evs] at he
  simp only [List.mem_cons] at he
  rcases he with rfl | he
  · rfl
  · have := bodyEvs_body r ls e he
    cases e <;> simp_all [Ev.isBody, Ev.isObs]

theorem mem_intrEvs_interrupt (isSub hasID : Bool) (info info' : Info S X) :
    Ev.interrupt info' ∈ intrEvs (V := V) isSub hasID info ↔ info' = info := by
  unfold intrEvs; split <;> simp

theorem mem_intrEvs_store (isSub hasID : Bool) (info : Info S X) :
    Ev.storeSet ∈ intrEvs (V := V) isSub hasID info ↔ (isSub = false ∧ hasID = true) := by
  unfold intrEvs; cases isSub <;> cases hasID <;> simp

theorem loopI_interrupt_mem (ops : ValOps V) (r : IRunner V S X) (sched : ISched V S X) (isSub hasID : Bool) :
    ∀ (fuel : Nat) (ls : LoopSt V S X) (info : Info S X),
      Ev.interrupt info ∈ (loopI ops r sched isSub hasID fuel ls).evs ↔
        ∃ cp, (loopI ops r sched isSub hasID fuel ls).res = .interrupted cp info := by
  intro fuel
  induction fuel with
  | zero => intro ls info; simp [loopI]
  | succ n ih =>
    intro ls info
    have hno : Ev.interrupt info ∉ (stepI ops r sched ls).1 := fun h => by
      have := stepI_evs_obs ops r sched ls _ h; simp [Ev.isObs] at this
    unfold loopI
    split
    · simp [hno]
    · simp [hno]
    · rename_i cp' info' _
      simp only [List.mem_append, hno, false_or, mem_intrEvs_interrupt]
      constructor
      · rintro rfl; exact ⟨cp', rfl⟩
      · rintro ⟨cp, h⟩; injection h with _ h2; exact h2.symm
    · simp only [List.mem_append, hno, false_or]
      exact ih _ info

theorem loopI_store_mem (ops : ValOps V) (r : IRunner V S X) (sched : ISched V S X) (isSub hasID : Bool) :
    ∀ (fuel : Nat) (ls : LoopSt V S X),
      Ev.storeSet ∈ (loopI ops r sched isSub hasID fuel ls).evs ↔
        (isSub = false ∧ hasID = true ∧ ∃ cp info, (loopI ops r sched isSub hasID fuel ls).res = .interrupted cp info) := by
  intro fuel
  induction fuel with
  | zero => intro ls; simp [loopI]
  | succ n ih =>
    intro ls
    have hno : Ev.storeSet ∉ (stepI ops r sched ls).1 := fun h => by
      have := stepI_evs_obs ops r sched ls _ h; simp [Ev.isObs] at this
    unfold loopI
    split
    · simp [hno]
    · simp [hno]
    · rename_i cp' info' _
      simp only [List.mem_append, hno, false_or, mem_intrEvs_store]
      constructor
      · rintro ⟨h1, h2⟩; exact ⟨h1, h2, cp', info', rfl⟩
      · rintro ⟨h1, h2, _⟩; exact ⟨h1, h2⟩
    · simp only [List.mem_append, hno, false_or]
      exact ih _

/-! ### interrupt-after -/

/-- the completion order loses no task -/
def SchedKeeps (sched : ISched V S X) : Prop := ∀ l x, x ∈ l → x ∈ sched l

theorem finish_mem_taskEvs (t : Task V X) (bo : BodyOut V S X) (k : Key) (h : Ev.finish k ∈ taskEvs t bo) :
    k = t.key ∧ ∃ out s, bo.res = .done out s := by
  unfold taskEvs at h
  simp only [List.mem_append, List.mem_cons] at h
  rcases h with (h | h) | h
  · cases h
  · split at h
    · simp at h
    · simp at h
  · split at h
    · rename_i out s hres
      simp only [List.mem_cons, Ev.finish.injEq, List.not_mem_nil, or_false] at h
      exact ⟨h, out, s, hres⟩
    · simp at h

theorem finish_mem_runBodies (r : IRunner V S X) : ∀ (ts : List (Task V X)) (st : S) (k : Key),
    Ev.finish k ∈ (runBodies r ts st).2.2 → ∃ out s, (k, BodyRes.done out s) ∈ (runBodies r ts st).1 := by
  intro ts
  induction ts with
  | nil => intro st k h; simp [runBodies] at h
  | cons t rest ih =>
    intro st k h
    simp only [runBodies, List.mem_append] at h
    rcases h with h | h
    · obtain ⟨rfl, out, s, hres⟩ := finish_mem_taskEvs _ _ k h
      exact ⟨out, s, by simp [runBodies, hres]⟩
    · obtain ⟨out, s, hm⟩ := ih _ k h
      exact ⟨out, s, by simp only [runBodies, List.mem_cons]; exact Or.inr hm⟩

theorem done_mem_runPosts (r : IRunner V S X) : ∀ (l : List (Key × BodyRes V S X)) (st : S) (k : Key) (out : V) (s : S),
    (k, BodyRes.done out s) ∈ l → ∃ out', (k, TaskOut.done out') ∈ (runPosts r l st).1 := by
  intro l
  induction l with
  | nil => intro st k out s h; simp at h
  | cons kr rest ih =>
    intro st k out s h
    simp only [List.mem_cons] at h
    rcases h with h | h
    · subst h
      simp only [runPosts, postOne]
      split
      · exact ⟨out, by simp⟩
      · rename_i hh _; exact ⟨(hh out st).1, by simp⟩
    · obtain ⟨o', hm⟩ := ih (postOne r kr.1 kr.2 st).2 k out s h
      exact ⟨o', by simp only [runPosts, List.mem_cons]; exact Or.inr hm⟩

theorem done_mem_doneOf : ∀ (coll : List (Key × TaskOut V X)) (k : Key) (out : V),
    (k, TaskOut.done out) ∈ coll → k ∈ (doneOf coll).map (·.1) := by
  intro coll
  induction coll with
  | nil => intro k out h; simp at h
  | cons o rest ih =>
    intro k out h
    simp only [List.mem_cons] at h
    rcases h with h | h
    · subst h; simp [doneOf]
    · have := ih k out h
      obtain ⟨k', o'⟩ := o
      cases o' <;> simp_all [doneOf]

theorem coreOut_next_dones (ops : ValOps V) (r : IRunner V S X) (sched : ISched V S X) (cm : Chans V)
    (bres : List (Key × BodyRes V S X)) (st2 : S) (cm' : Chans V) (ts : List (Key × V)) (dones : List (Done V)) (st : S)
    (h : coreOut ops r sched cm bres st2 = .next cm' ts dones st) :
    dones = doneOf (runPosts r (sched bres) st2).1 := by
  unfold coreOut at h
  simp only at h
  split at h
  · simp at h
  · split at h
    · split at h <;> simp at h
    · split at h
      · simp at h
      · split at h
        · simp at h
        · simp at h
        · injection h with _ _ h3 _
          exact h3.symm

theorem afterHits_nil_iff (A : List Key) (dones : List (Done V)) :
    afterHits A dones = [] ↔ ∀ k ∈ dones.map (·.1), k ∉ A := by
  unfold afterHits
  rw [List.filter_eq_nil_iff]
  simp

/-- when the loop goes on, no node that completed in this superstep is an interrupt-after node -/
theorem stepI_next_no_after (ops : ValOps V) (r : IRunner V S X) (sched : ISched V S X) (hs : SchedKeeps sched)
    (ls ls' : LoopSt V S X) (h : (stepI ops r sched ls).2 = .next ls') :
    ∀ k, Ev.finish k ∈ (stepI ops r sched ls).1 → k ∉ r.intAfter := by
  intro k hk
  obtain ⟨cm, ts, dones, st, hc, _, _, hafter⟩ := finishStep_next ops r ls.stale _ ls' h
  rw [stepI_evs] at hk
  simp only [List.mem_cons] at hk
  rcases hk with hk | hk
  · cases hk
  · obtain ⟨out, s, hm⟩ := finish_mem_runBodies r _ _ k hk
    have hm' := hs _ _ hm
    obtain ⟨out', hp⟩ := done_mem_runPosts r _ (runBodies r (runPres r ls.tasks ls.st).1 (runPres r ls.tasks ls.st).2).2.1 k out s hm'
    have hd := done_mem_doneOf _ k out' hp
    have hdones := coreOut_next_dones ops r sched _ _ _ cm ts dones st hc
    rw [← hdones] at hd
    exact (afterHits_nil_iff r.intAfter dones).1 hafter k hd

/-- after a `finish k` with `k` an interrupt-after node, the call submits no further superstep -/
def NoStepAfter (A : List Key) : List (Ev V S X) → Prop
  | [] => True
  | .finish k :: rest => (k ∈ A → topSteps rest = []) ∧ NoStepAfter A rest
  | _ :: rest => NoStepAfter A rest

theorem noStepAfter_of_noSteps (A : List Key) : ∀ (l : List (Ev V S X)), (∀ e ∈ l, ∀ ts, e ≠ Ev.step ts) → NoStepAfter A l := by
  intro l
  induction l with
  | nil => intro _; trivial
  | cons e rest ih =>
    intro h
    have hr : ∀ e ∈ rest, ∀ ts, e ≠ Ev.step ts := fun e' h' => h e' (by simp [h'])
    have hts : topSteps rest = [] := by
      clear ih h
      induction rest with
      | nil => rfl
      | cons e' rest' ih' =>
        have := hr e' (by simp)
        have hr' := ih' (fun e'' h'' => hr e'' (by simp [h'']))
        cases e' <;> simp_all [topSteps]
    cases e <;> simp [NoStepAfter, ih hr, hts]

theorem noStepAfter_append (A : List Key) : ∀ (l1 l2 : List (Ev V S X)),
    NoStepAfter A l1 → NoStepAfter A l2 → ((∃ k, k ∈ A ∧ Ev.finish k ∈ l1) → topSteps l2 = []) →
    NoStepAfter A (l1 ++ l2) := by
  intro l1
  induction l1 with
  | nil => intro l2 _ h2 _; simpa using h2
  | cons e rest ih =>
    intro l2 h1 h2 h3
    have h3' : (∃ k, k ∈ A ∧ Ev.finish k ∈ rest) → topSteps l2 = [] := by
      rintro ⟨k, hk, hm⟩; exact h3 ⟨k, hk, by simp [hm]⟩
    cases e with
    | finish k =>
      simp only [NoStepAfter] at h1
      simp only [List.cons_append, NoStepAfter]
      refine ⟨?_, ih l2 h1.2 h2 h3'⟩
      intro hk
      rw [topSteps_append, h1.1 hk, h3 ⟨k, hk, by simp⟩]; rfl
    | step ts => simp only [NoStepAfter] at h1; simpa [NoStepAfter] using ih l2 h1 h2 h3'
    | start k v => simp only [NoStepAfter] at h1; simpa [NoStepAfter] using ih l2 h1 h2 h3'
    | nested k evs => simp only [NoStepAfter] at h1; simpa [NoStepAfter] using ih l2 h1 h2 h3'
    | interrupt i => simp only [NoStepAfter] at h1; simpa [NoStepAfter] using ih l2 h1 h2 h3'
    | storeSet => simp only [NoStepAfter] at h1; simpa [NoStepAfter] using ih l2 h1 h2 h3'

theorem noStepAfter_split (A : List Key) : ∀ (l1 l2 : List (Ev V S X)) (k : Key),
    NoStepAfter A (l1 ++ Ev.finish k :: l2) → k ∈ A → topSteps l2 = [] := by
  intro l1
  induction l1 with
  | nil => intro l2 k h hk; simp only [List.nil_append, NoStepAfter] at h; exact h.1 hk
  | cons e rest ih =>
    intro l2 k h hk
    cases e <;> simp only [List.cons_append, NoStepAfter] at h
    case finish k' => exact ih l2 k h.2 hk
    all_goals exact ih l2 k h hk

theorem stepI_noStepAfter (ops : ValOps V) (r : IRunner V S X) (sched : ISched V S X) (ls : LoopSt V S X) (A : List Key) :
    NoStepAfter A (stepI ops r sched ls).1 := by
  rw [stepI_evs]
  simp only [NoStepAfter]
  apply noStepAfter_of_noSteps
  intro e he ts heq
  have := bodyEvs_body r ls e he
  subst heq
  simp [Ev.isBody] at this

theorem intrEvs_noStepAfter (isSub hasID : Bool) (info : Info S X) (A : List Key) :
    NoStepAfter A (intrEvs (V := V) isSub hasID info) := by
  unfold intrEvs; split <;> simp [NoStepAfter]

theorem loopI_noStepAfter (ops : ValOps V) (r : IRunner V S X) (sched : ISched V S X) (isSub hasID : Bool)
    (hs : SchedKeeps sched) :
    ∀ (fuel : Nat) (ls : LoopSt V S X), NoStepAfter r.intAfter (loopI ops r sched isSub hasID fuel ls).evs := by
  intro fuel
  induction fuel with
  | zero => intro ls; simp [loopI, NoStepAfter]
  | succ n ih =>
    intro ls
    unfold loopI
    split
    · exact stepI_noStepAfter ops r sched ls _
    · exact stepI_noStepAfter ops r sched ls _
    · exact noStepAfter_append _ _ _ (stepI_noStepAfter ops r sched ls _) (intrEvs_noStepAfter _ _ _ _)
        (fun _ => topSteps_intrEvs _ _ _)
    · rename_i ls' hnext
      apply noStepAfter_append _ _ _ (stepI_noStepAfter ops r sched ls _) (ih ls')
      rintro ⟨k, hk, hm⟩
      exact absurd hk (stepI_next_no_after ops r sched hs ls ls' hnext k hm)

theorem coreOut_sr_dones (ops : ValOps V) (r : IRunner V S X) (sched : ISched V S X) (cm : Chans V)
    (bres : List (Key × BodyRes V S X)) (st2 : S) (cm' : Chans V) (restore : List Key) (subs : List (Key × X))
    (reruns : List Key) (dones : List (Done V)) (st : S)
    (h : coreOut ops r sched cm bres st2 = .sr cm' restore subs reruns dones st) :
    dones = doneOf (runPosts r (sched bres) st2).1 := by
  unfold coreOut at h
  simp only at h
  split at h
  · simp at h
  · split at h
    · split at h
      · simp at h
      · injection h with _ _ _ _ h5 _
        exact h5.symm
    · split at h
      · simp at h
      · split at h <;> simp at h

theorem mem_afterHits (A : List Key) (dones : List (Done V)) (k : Key) :
    k ∈ afterHits A dones ↔ k ∈ dones.map (·.1) ∧ k ∈ A := by
  unfold afterHits
  simp [List.mem_filter]

/-- an interrupt lists in AfterNodes every interrupt-after node that completed in the superstep it ends -/
theorem stepI_intr_after (ops : ValOps V) (r : IRunner V S X) (sched : ISched V S X) (hs : SchedKeeps sched)
    (ls : LoopSt V S X) (cp : Checkpoint V S X) (info : Info S X) (h : (stepI ops r sched ls).2 = .intr cp info) :
    ∀ k, Ev.finish k ∈ (stepI ops r sched ls).1 → k ∈ r.intAfter → k ∈ info.after := by
  intro k hk hA
  rw [stepI_evs] at hk
  simp only [List.mem_cons] at hk
  rcases hk with hk | hk
  · cases hk
  · obtain ⟨out, s, hm⟩ := finish_mem_runBodies r _ _ k hk
    have hm' := hs _ _ hm
    obtain ⟨out', hp⟩ := done_mem_runPosts r _ (runBodies r (runPres r ls.tasks ls.st).1 (runPres r ls.tasks ls.st).2).2.1 k out s hm'
    have hd := done_mem_doneOf _ k out' hp
    simp only [stepI] at h
    have hcore : (stepCore ops r sched ls).2 =
        coreOut ops r sched ls.cm (runBodies r (runPres r ls.tasks ls.st).1 (runPres r ls.tasks ls.st).2).1
          (runBodies r (runPres r ls.tasks ls.st).1 (runPres r ls.tasks ls.st).2).2.1 := rfl
    cases hc : (stepCore ops r sched ls).2 with
    | done v => rw [hc] at h; simp [finishStep] at h
    | fail e => rw [hc] at h; simp [finishStep] at h
    | sr cm restore subs reruns dones st =>
      rw [hc] at h
      simp only [finishStep] at h
      injection h with _ h2
      subst h2
      rw [hcore] at hc
      have hdones := coreOut_sr_dones ops r sched _ _ _ cm restore subs reruns dones st hc
      rw [← hdones] at hd
      exact (mem_afterHits r.intAfter dones k).2 ⟨hd, hA⟩
    | next cm ts dones st =>
      rw [hc] at h
      rw [hcore] at hc
      have hdones := coreOut_next_dones ops r sched _ _ _ cm ts dones st hc
      rw [← hdones] at hd
      simp only [finishStep] at h
      split at h
      · simp at h
      · split at h
        · simp at h
        · simp at h
        · injection h with _ h2
          subst h2
          exact (mem_afterHits r.intAfter dones k).2 ⟨hd, hA⟩

/-! ### the same facts for a whole call (`runI`) -/

theorem runI_noStepAfter (ops : ValOps V) (cfg : Cfg) (r : IRunner V S X) (sched : ISched V S X) (isSub hasID : Bool)
    (hs : SchedKeeps sched) (inp : V ⊕ Checkpoint V S X) :
    NoStepAfter r.intAfter (runI ops cfg r sched isSub hasID inp).evs := by
  cases inp with
  | inr cp => exact loopI_noStepAfter ops r sched isSub hasID hs _ _
  | inl x =>
    simp only [runI]
    split
    · simp [NoStepAfter]
    · simp [NoStepAfter]
    · split
      · exact intrEvs_noStepAfter _ _ _ _
      · exact loopI_noStepAfter ops r sched isSub hasID hs _ _

theorem runI_interrupt_mem (ops : ValOps V) (cfg : Cfg) (r : IRunner V S X) (sched : ISched V S X) (isSub hasID : Bool)
    (inp : V ⊕ Checkpoint V S X) (info : Info S X) :
    Ev.interrupt info ∈ (runI ops cfg r sched isSub hasID inp).evs ↔
      ∃ cp, (runI ops cfg r sched isSub hasID inp).res = .interrupted cp info := by
  cases inp with
  | inr cp => exact loopI_interrupt_mem ops r sched isSub hasID _ _ info
  | inl x =>
    simp only [runI]
    split
    · simp
    · simp
    · split
      · simp only [mem_intrEvs_interrupt]
        constructor
        · rintro rfl; exact ⟨_, rfl⟩
        · rintro ⟨cp, h⟩; injection h with _ h2; exact h2.symm
      · exact loopI_interrupt_mem ops r sched isSub hasID _ _ info

theorem runI_store_mem (ops : ValOps V) (cfg : Cfg) (r : IRunner V S X) (sched : ISched V S X) (isSub hasID : Bool)
    (inp : V ⊕ Checkpoint V S X) :
    Ev.storeSet ∈ (runI ops cfg r sched isSub hasID inp).evs ↔
      (isSub = false ∧ hasID = true ∧ ∃ cp info, (runI ops cfg r sched isSub hasID inp).res = .interrupted cp info) := by
  cases inp with
  | inr cp => exact loopI_store_mem ops r sched isSub hasID _ _
  | inl x =>
    simp only [runI]
    split
    · simp
    · simp
    · split
      · simp only [mem_intrEvs_store]
        constructor
        · rintro ⟨h1, h2⟩; exact ⟨h1, h2, _, _, rfl⟩
        · rintro ⟨h1, h2, _⟩; exact ⟨h1, h2⟩
      · exact loopI_store_mem ops r sched isSub hasID _ _

/-- in every call, only the first superstep can contain an interrupt-before node (whatever the
    source does with the tasks computed from START) -/
theorem runI_later_steps_avoid (ops : ValOps V) (cfg : Cfg) (r : IRunner V S X) (sched : ISched V S X) (isSub hasID : Bool)
    (inp : V ⊕ Checkpoint V S X) :
    StepsAvoid r.intBefore (topSteps (runI ops cfg r sched isSub hasID inp).evs).tail := by
  have hl : ∀ ls, StepsAvoid r.intBefore (topSteps (loopI ops r sched isSub hasID r.base.fuel ls).evs).tail := by
    intro ls
    rcases loopI_topSteps ops r sched isSub hasID r.base.fuel ls with h0 | ⟨rest, hr, havoid⟩
    · rw [h0]; intro ts h; simp at h
    · rw [hr]; exact havoid
  cases inp with
  | inr cp => exact hl _
  | inl x =>
    simp only [runI]
    split
    · intro ts h; simp [topSteps] at h
    · intro ts h; simp [topSteps] at h
    · split
      · intro ts h; simp [topSteps_intrEvs] at h
      · exact hl _

end EinoV.Interrupt
