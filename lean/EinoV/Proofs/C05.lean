/-
  C05 / C06 — helper lemmas about the interrupt-aware run loop (no property statements here).
-/
import EinoV.Model.C05

namespace EinoV.Interrupt
open EinoV.Engine

variable {V S X : Type}

/-! ### events of one superstep -/

/-- events produced by the node bodies of a superstep -/
def Ev.isBody : Ev V S X → Bool
  | .start .. => true | .finish .. => true | .nested .. => true | _ => false

theorem taskEvs_body (t : Task V X) (bo : BodyOut V S X) : ∀ e ∈ taskEvs t bo, e.isBody = true := by
  intro e he
  unfold taskEvs at he
  simp only [List.mem_append, List.mem_cons] at he
  rcases he with (rfl | he) | he
  · rfl
  · split at he
    · simp at he
    · simp only [List.mem_cons, List.not_mem_nil, or_false] at he; subst he; rfl
  · split at he
    · simp only [List.mem_cons, List.not_mem_nil, or_false] at he; subst he; rfl
    · simp at he

theorem runBodies_evs_body (r : IRunner V S X) : ∀ (ts : List (Task V X)) (st : S),
    ∀ e ∈ (runBodies r ts st).2.2, e.isBody = true := by
  intro ts
  induction ts with
  | nil => intro st e he; simp [runBodies] at he
  | cons t rest ih =>
    intro st e he
    simp only [runBodies, List.mem_append] at he
    rcases he with he | he
    · exact taskEvs_body _ _ e he
    · exact ih _ e he

/-- the body events of the superstep started from `ls` -/
def bodyEvs (r : IRunner V S X) (ls : LoopSt V S X) : List (Ev V S X) :=
  (runBodies r (runPres r ls.tasks ls.st).1 (runPres r ls.tasks ls.st).2).2.2

theorem stepI_evs (ops : ValOps V) (r : IRunner V S X) (sched : ISched V S X) (ls : LoopSt V S X) :
    (stepI ops r sched ls).1 = Ev.step (stepTasks r ls) :: bodyEvs r ls := rfl

theorem bodyEvs_body (r : IRunner V S X) (ls : LoopSt V S X) : ∀ e ∈ bodyEvs r ls, e.isBody = true :=
  runBodies_evs_body r _ _

theorem topSteps_append (l1 l2 : List (Ev V S X)) : topSteps (l1 ++ l2) = topSteps l1 ++ topSteps l2 := by
  induction l1 with
  | nil => rfl
  | cons e rest ih => cases e <;> simp [topSteps, ih]

theorem topSteps_body (l : List (Ev V S X)) (h : ∀ e ∈ l, e.isBody = true) : topSteps l = [] := by
  induction l with
  | nil => rfl
  | cons e rest ih =>
    have he := h e (by simp)
    have hr := ih (fun e' h' => h e' (by simp [h']))
    cases e <;> simp_all [topSteps, Ev.isBody]

theorem topSteps_intrEvs (isSub hasID : Bool) (info : Info S X) :
    topSteps (intrEvs (V := V) isSub hasID info) = [] := by
  unfold intrEvs; split <;> simp [topSteps]

theorem topSteps_stepI (ops : ValOps V) (r : IRunner V S X) (sched : ISched V S X) (ls : LoopSt V S X) :
    topSteps (stepI ops r sched ls).1 = [stepTasks r ls] := by
  rw [stepI_evs]; simp [topSteps, topSteps_body _ (bodyEvs_body r ls)]

/-! ### pre-handlers keep keys and nested checkpoints -/

theorem preOne_key (r : IRunner V S X) (t : Task V X) (st : S) :
    (preOne r t st).1.key = t.key ∧ (preOne r t st).1.sub = t.sub ∧ (preOne r t st).1.skipPre = t.skipPre := by
  unfold preOne
  split
  · simp
  · split
    · simp
    · split <;> simp

theorem runPres_map (r : IRunner V S X) : ∀ (ts : List (Task V X)) (st : S),
    (runPres r ts st).1.map (fun t => (t.key, t.sub.isSome)) = ts.map (fun t => (t.key, t.sub.isSome)) := by
  intro ts
  induction ts with
  | nil => intro st; rfl
  | cons t rest ih =>
    intro st
    simp only [runPres, List.map_cons, ih]
    have := preOne_key r t st
    simp [this.1, this.2.1]

theorem stepTasks_eq (r : IRunner V S X) (ls : LoopSt V S X) :
    stepTasks r ls = ls.tasks.map (fun t => (t.key, t.sub.isSome)) := runPres_map r _ _

/-! ### getHitKey -/

theorem mem_hitKeys {α} (ts : List (Key × α)) (keys : List Key) (k : Key) :
    k ∈ hitKeys ts keys ↔ (∃ v, (k, v) ∈ ts) ∧ k ∈ keys := by
  unfold hitKeys
  simp only [List.mem_flatMap, List.mem_map, List.mem_filter, beq_iff_eq]
  constructor
  · rintro ⟨⟨k', v⟩, hmem, ⟨a, ⟨ha, rfl⟩, rfl⟩⟩
    exact ⟨⟨v, hmem⟩, ha⟩
  · rintro ⟨⟨v, hmem⟩, hk⟩
    exact ⟨(k, v), hmem, ⟨k, ⟨hk, rfl⟩, rfl⟩⟩

theorem hitKeys_nil_iff {α} (ts : List (Key × α)) (keys : List Key) :
    hitKeys ts keys = [] ↔ ∀ t ∈ ts, t.1 ∉ keys := by
  constructor
  · intro h t ht hk
    have : t.1 ∈ hitKeys ts keys := (mem_hitKeys ts keys t.1).2 ⟨⟨t.2, ht⟩, hk⟩
    rw [h] at this; simp at this
  · intro h
    apply List.eq_nil_iff_forall_not_mem.2
    intro k hk
    obtain ⟨⟨v, hv⟩, hkeys⟩ := (mem_hitKeys ts keys k).1 hk
    exact h (k, v) hv hkeys

theorem hitKeys_nil_keys {α} (ts : List (Key × α)) : hitKeys ts [] = [] := by
  rw [hitKeys_nil_iff]; intro t _ h; simp at h

theorem afterHits_nil_keys (dones : List (Done V)) : afterHits [] dones = [] := by
  simp [afterHits]

/-! ### what `finishStep` continues with -/

theorem finishStep_next (ops : ValOps V) (r : IRunner V S X) (stale : List (Key × X)) (c : CoreOut V S X)
    (ls' : LoopSt V S X) (h : finishStep ops r stale c = .next ls') :
    ∃ cm ts dones st, c = .next cm ts dones st ∧
      ls' = { cm := cm, tasks := mkTasks stale ts, st := st, stale := stale } ∧
      hitKeys ts r.intBefore = [] ∧ afterHits r.intAfter dones = [] := by
  cases c with
  | done v => simp [finishStep] at h
  | fail e => simp [finishStep] at h
  | sr cm restore subs reruns dones st => simp [finishStep] at h
  | next cm ts dones st =>
    simp only [finishStep] at h
    split at h
    · rename_i hc
      simp only [Bool.and_eq_true, List.isEmpty_iff] at hc
      injection h with h
      exact ⟨cm, ts, dones, st, rfl, h.symm, hc.1, hc.2⟩
    · split at h <;> simp at h

theorem mkTasks_keys (stale : List (Key × X)) (ts : List (Key × V)) :
    (mkTasks stale ts).map (·.key) = ts.map (·.1) := by
  simp [mkTasks]

/-- the tasks the loop goes on with never hit the interrupt-before list -/
theorem finishStep_next_noBefore (ops : ValOps V) (r : IRunner V S X) (stale : List (Key × X))
    (c : CoreOut V S X) (ls' : LoopSt V S X) (h : finishStep ops r stale c = .next ls') :
    (∀ t ∈ ls'.tasks, t.key ∉ r.intBefore) ∧ ls'.stale = stale := by
  obtain ⟨cm, ts, dones, st, _, rfl, hb, _⟩ := finishStep_next ops r stale c ls' h
  refine ⟨?_, rfl⟩
  intro t ht
  simp only [mkTasks, List.mem_map] at ht
  obtain ⟨p, hp, rfl⟩ := ht
  exact (hitKeys_nil_iff ts r.intBefore).1 hb p hp

/-! ### supersteps of a whole call -/

/-- no task of these supersteps is an interrupt-before node -/
def StepsAvoid (bs : List Key) (steps : List (List (Key × Bool))) : Prop :=
  ∀ ts ∈ steps, ∀ p ∈ ts, p.1 ∉ bs

theorem loopI_topSteps (ops : ValOps V) (r : IRunner V S X) (sched : ISched V S X) (isSub hasID : Bool) :
    ∀ (fuel : Nat) (ls : LoopSt V S X),
      topSteps (loopI ops r sched isSub hasID fuel ls).evs = [] ∨
      ∃ rest, topSteps (loopI ops r sched isSub hasID fuel ls).evs = stepTasks r ls :: rest ∧
        StepsAvoid r.intBefore rest := by
  intro fuel
  induction fuel with
  | zero => intro ls; left; simp [loopI, topSteps]
  | succ n ih =>
    intro ls
    right
    unfold loopI
    split
    · exact ⟨[], by simp [topSteps_stepI], by intro ts h; simp at h⟩
    · exact ⟨[], by simp [topSteps_stepI], by intro ts h; simp at h⟩
    · exact ⟨[], by simp [topSteps_append, topSteps_stepI, topSteps_intrEvs], by intro ts h; simp at h⟩
    · rename_i ls' hnext
      have hnb := finishStep_next_noBefore ops r ls.stale _ ls' hnext
      simp only [topSteps_append, topSteps_stepI]
      refine ⟨_, rfl, ?_⟩
      rcases ih ls' with h0 | ⟨rest, hr, havoid⟩
      · rw [h0]; intro ts h; simp at h
      · rw [hr]
        intro ts hts
        simp only [List.singleton_append, List.mem_cons] at hts
        rcases hts with rfl | hts
        · intro p hp
          rw [stepTasks_eq] at hp
          simp only [List.mem_map] at hp
          obtain ⟨t, ht, rfl⟩ := hp
          exact hnb.1 t ht
        · exact havoid ts hts

end EinoV.Interrupt
