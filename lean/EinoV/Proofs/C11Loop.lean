/-
  C11 — lemmas for Model/C11Loop.lean: which executions of a node in a resumed run have their
  pre-handler, and how many handler operations the pipeline of n+1 executions contains.
-/
import EinoV.Model.C11Loop
import EinoV.Proofs.C11

namespace EinoV.C11

variable {S V : Type}

theorem skipsPre_later (cpSkip : Bool) {k : Nat} (hk : 1 ≤ k) : skipsPre true cpSkip k = false := by
  have : (k == 0) = false := by
    cases k with
    | zero => omega
    | succ k => rfl
  simp [skipsPre, this]

theorem skipsPre_restored (perTask cpSkip : Bool) : skipsPre perTask cpSkip 0 = cpSkip := by
  simp [skipsPre]

theorem skipsPre_perNode (k : Nat) : skipsPre false true k = true := by
  simp [skipsPre]

theorem execTask_prog (perTask cpSkip : Bool) (nd : LoopNode S V) (k : Nat) (v : V) :
    (execTask perTask cpSkip nd k v).prog = execProg perTask cpSkip nd k := by
  unfold Task.prog execTask execProg hOp
  cases skipsPre perTask cpSkip k <;> cases nd.pre <;> cases nd.post <;> simp

theorem loopProg_zero (perTask cpSkip : Bool) (nd : LoopNode S V) :
    loopProg perTask cpSkip nd 0 = execProg perTask cpSkip nd 0 := by
  simp [loopProg]

theorem loopProg_succ (perTask cpSkip : Bool) (nd : LoopNode S V) (n : Nat) :
    loopProg perTask cpSkip nd (n + 1) =
      loopProg perTask cpSkip nd n ++ execProg perTask cpSkip nd (n + 1) := by
  unfold loopProg
  rw [List.range_succ, List.flatMap_append]
  simp

theorem countP_hOp_pre {nd : LoopNode S V} (h : nd.WF) :
    List.countP isPreOp (hOp nd.pre) = if nd.pre.isSome then 1 else 0 := by
  cases hp : nd.pre with
  | none => simp [hOp]
  | some x =>
    obtain ⟨w, f⟩ := x
    rcases h.pre w f hp with rfl | rfl <;> simp [hOp, isPreOp]

theorem countP_hOp_post_pre {nd : LoopNode S V} (h : nd.WF) :
    List.countP isPreOp (hOp nd.post) = 0 := by
  cases hp : nd.post with
  | none => simp [hOp]
  | some x =>
    obtain ⟨w, f⟩ := x
    rcases h.post w f hp with rfl | rfl <;> simp [hOp, isPreOp]

theorem countP_hOp_post {nd : LoopNode S V} (h : nd.WF) :
    List.countP isPostOp (hOp nd.post) = if nd.post.isSome then 1 else 0 := by
  cases hp : nd.post with
  | none => simp [hOp]
  | some x =>
    obtain ⟨w, f⟩ := x
    rcases h.post w f hp with rfl | rfl <;> simp [hOp, isPostOp]

theorem countP_hOp_pre_post {nd : LoopNode S V} (h : nd.WF) :
    List.countP isPostOp (hOp nd.pre) = 0 := by
  cases hp : nd.pre with
  | none => simp [hOp]
  | some x =>
    obtain ⟨w, f⟩ := x
    rcases h.pre w f hp with rfl | rfl <;> simp [hOp, isPostOp]

theorem countP_body_pre {nd : LoopNode S V} (h : nd.WF) (k : Nat) :
    List.countP isPreOp (nd.body k) = 0 := by
  rw [List.countP_eq_zero]
  intro o ho; simp [(h.body k o ho).1]

theorem countP_body_post {nd : LoopNode S V} (h : nd.WF) (k : Nat) :
    List.countP isPostOp (nd.body k) = 0 := by
  rw [List.countP_eq_zero]
  intro o ho; simp [(h.body k o ho).2]

/-- pre-handler operations of one execution -/
theorem countP_pre_exec {nd : LoopNode S V} (h : nd.WF) (perTask cpSkip : Bool) (k : Nat) :
    List.countP isPreOp (execProg perTask cpSkip nd k) =
      if skipsPre perTask cpSkip k then 0 else (if nd.pre.isSome then 1 else 0) := by
  unfold execProg
  rw [List.countP_append, List.countP_append, countP_body_pre h, countP_hOp_post_pre h]
  cases skipsPre perTask cpSkip k
  · simp [countP_hOp_pre h]
  · simp

/-- post-handler operations of one execution -/
theorem countP_post_exec {nd : LoopNode S V} (h : nd.WF) (perTask cpSkip : Bool) (k : Nat) :
    List.countP isPostOp (execProg perTask cpSkip nd k) = if nd.post.isSome then 1 else 0 := by
  unfold execProg
  rw [List.countP_append, List.countP_append, countP_body_post h, countP_hOp_post h]
  cases skipsPre perTask cpSkip k
  · simp [countP_hOp_pre_post h]
  · simp

/-- with the mark carried by the restored task: n+1 executions contain the pre-handler n+1
    times, n times when the restored execution skips it -/
theorem countP_pre_loop {nd : LoopNode S V} (h : nd.WF) (cpSkip : Bool) (n : Nat) :
    List.countP isPreOp (loopProg true cpSkip nd n) =
      if nd.pre.isSome then (if cpSkip then n else n + 1) else 0 := by
  induction n with
  | zero =>
    rw [loopProg_zero, countP_pre_exec h, skipsPre_restored]
    cases cpSkip <;> cases nd.pre.isSome <;> simp
  | succ n ih =>
    rw [loopProg_succ, List.countP_append, ih, countP_pre_exec h, skipsPre_later cpSkip (by omega)]
    cases cpSkip <;> cases nd.pre.isSome <;> simp

theorem countP_post_loop {nd : LoopNode S V} (h : nd.WF) (perTask cpSkip : Bool) (n : Nat) :
    List.countP isPostOp (loopProg perTask cpSkip nd n) = if nd.post.isSome then n + 1 else 0 := by
  induction n with
  | zero => rw [loopProg_zero, countP_post_exec h]
  | succ n ih =>
    rw [loopProg_succ, List.countP_append, ih, countP_post_exec h]
    cases nd.post.isSome <;> simp

/-- with a mark looked up by node key for the whole run: no execution has the pre-handler -/
theorem countP_pre_loop_perNode {nd : LoopNode S V} (h : nd.WF) (n : Nat) :
    List.countP isPreOp (loopProg false true nd n) = 0 := by
  induction n with
  | zero => rw [loopProg_zero, countP_pre_exec h, skipsPre_perNode]; simp
  | succ n ih =>
    rw [loopProg_succ, List.countP_append, ih, countP_pre_exec h, skipsPre_perNode]; simp

/-- program order of one thread in every reachable configuration of the micro-step machine:
    what it has committed, in commit order, followed by what it still has to do, is its
    program (the statement of `pre_before_post` for an arbitrary thread) -/
theorem thread_order {locks : Wrapper → Bool} (guard : Sys S V → Nat → Bool) (sched : List Nat)
    (s0 : S) (ths : List (List (Op S V) × V))
    (hl : AllLocked locks (⟨s0, ths, []⟩ : Core S V)) (t : Nat) (p : List (Op S V)) (v : V)
    (ht : ths[t]? = some (p, v)) :
    let fin := run locks guard sched (init s0 ths)
    (evsOf t fin.core.log).map (·.op) ++ pending fin.core t = p := by
  intro fin
  obtain ⟨_, order, ho⟩ := run_refines guard sched (init s0 ths) hl (inv_init s0 ths)
  obtain ⟨new, hf⟩ := arun_facts order (⟨s0, ths, []⟩ : Core S V)
  have hc : fin.core = arun order ⟨s0, ths, []⟩ := ho
  have hlog : fin.core.log = new := by rw [hc]; simpa using hf.log_eq
  rw [hlog, hc, hf.order t]
  simp [pending, ht]

end EinoV.C11
