/-
  Lemmas about the loop forms `gotrans` produces: Go `for range` is `forIn` in the `Id` monad,
  which is the structural recursion `goLoop`; loops that never break are folds; the
  "search" loops (`break` / `return` at the first hit) are `List.any` / `List.all`.
-/
import EinoV.Model.GoSem
namespace EinoV.GoSem

theorem forIn_id {α β : Type} (l : List α) (b : β) (f : α → β → Id (ForInStep β)) :
    (forIn l b f : Id β) = goLoop (fun a b => (f a b).run) l b := by
  induction l generalizing b with
  | nil => rfl
  | cons a l ih =>
    simp only [List.forIn_cons, goLoop]
    show (match (f a b).run with | .done b' => _ | .yield b' => _) = _
    cases h : (f a b).run
    · rfl
    · exact ih _

/-- a loop whose body never breaks is a fold, seen through any map of the loop state -/
theorem goLoop_fold {α β γ : Type} (h : β → γ) (f : α → β → ForInStep β) (g : γ → α → γ)
    (hf : ∀ a b, ∃ b', f a b = .yield b' ∧ h b' = g (h b) a) (l : List α) (b : β) :
    h (goLoop f l b) = l.foldl g (h b) := by
  induction l generalizing b with
  | nil => rfl
  | cons a l ih =>
    obtain ⟨b', e, hb⟩ := hf a b
    simp only [goLoop, e, List.foldl_cons, ih, hb]

/-- a loop whose body never breaks preserves whatever every step preserves -/
theorem goLoop_inv {α β : Type} (P : β → Prop) (f : α → β → ForInStep β)
    (hf : ∀ a b, P b → ∃ b', f a b = .yield b' ∧ P b') (l : List α) (b : β) (hb : P b) :
    P (goLoop f l b) := by
  induction l generalizing b with
  | nil => exact hb
  | cons a l ih =>
    obtain ⟨b', e, hb'⟩ := hf a b hb
    simp only [goLoop, e]; exact ih _ hb'

/-- the search loop: leave with `hit` at the first element satisfying `p`, otherwise keep `b` -/
theorem goLoop_search {α β : Type} (p : α → Bool) (hit : β) (l : List α) (b : β) :
    goLoop (fun a s => if p a = true then ForInStep.done hit else ForInStep.yield s) l b
      = if l.any p then hit else b := by
  induction l with
  | nil => rfl
  | cons a l ih =>
    simp only [goLoop, List.any_cons]
    by_cases h : p a = true
    · simp [h]
    · simp [h, ih]

/-- the same when the loop state is rebuilt (not passed on) at every step -/
theorem goLoop_search' {α β : Type} (p : α → Bool) (hit : β) (l : List α) (b : β) :
    goLoop (fun a _ => if p a = true then ForInStep.done hit else ForInStep.yield b) l b
      = if l.any p then hit else b := by
  induction l with
  | nil => rfl
  | cons a l ih =>
    simp only [goLoop, List.any_cons]
    by_cases h : p a = true
    · simp [h]
    · simp [h, ih]

/-- collecting loop: `xs = append(xs, f a)` -/
theorem goLoop_collect {α β : Type} (g : α → β) (l : List α) (acc : List β) :
    goLoop (fun a s => ForInStep.yield (s ++ [g a])) l acc = acc ++ l.map g := by
  induction l generalizing acc with
  | nil => simp [goLoop]
  | cons a l ih => simp [goLoop, ih]

end EinoV.GoSem
