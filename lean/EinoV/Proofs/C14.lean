/-
  C14 — helper lemmas for the re-chunking law, totality and the tool-call spec.
-/
import EinoV.Model.C14
set_option linter.unusedSimpArgs false
set_option linter.unusedVariables false
namespace EinoV.C14

/-- "equal results or both errors" -/
def EqvE {α} (a b : Except Err α) : Prop :=
  match a, b with
  | .ok x, .ok y => x = y
  | .error _, .error _ => True
  | _, _ => False

theorem EqvE.rfl' {α} (a : Except Err α) : EqvE a a := by
  cases a <;> simp [EqvE]

theorem EqvE.of_eq {α} {a b : Except Err α} (h : a = b) : EqvE a b := h ▸ EqvE.rfl' a

/-! ### strings -/

theorem joinS_append (xs ys : List String) : joinS (xs ++ ys) = joinS xs ++ joinS ys := by
  induction xs with
  | nil => simp [joinS, String.empty_append]
  | cons x xs ih => simp [joinS, ih, String.append_assoc]

theorem joinS_rechunk (xs ys : List String) : joinS (joinS xs :: ys) = joinS (xs ++ ys) := by
  simp [joinS, joinS_append]

/-! ### first non-empty with conflict check -/

theorem pick_empty_left (c : Bool) (x : String) : pick c "" x = .ok x := by
  unfold pick; split <;> simp_all

theorem firstNE_append (c : Bool) (acc : String) (xs ys : List String) :
    firstNE c acc (xs ++ ys) = (firstNE c acc xs >>= fun r => firstNE c r ys) := by
  induction xs generalizing acc with
  | nil => simp [firstNE]; rfl
  | cons x xs ih =>
    simp only [List.cons_append, firstNE]
    cases pick c acc x with
    | error e => rfl
    | ok a => simpa [bind, Except.bind] using ih a

theorem firstNE_cons_empty (c : Bool) (r : String) (ys : List String) :
    firstNE c "" (r :: ys) = firstNE c r ys := by
  simp [firstNE, pick_empty_left, bind, Except.bind]

theorem firstNE_rechunk (c : Bool) (xs ys : List String) :
    (firstNE c "" xs >>= fun r => firstNE c "" (r :: ys)) = firstNE c "" (xs ++ ys) := by
  rw [firstNE_append]; simp only [firstNE_cons_empty]

/-! ### last non-empty -/

theorem lastNEl_append (acc : List Nat) (xs ys : List (List Nat)) :
    lastNEl acc (xs ++ ys) = lastNEl (lastNEl acc xs) ys := by
  induction xs generalizing acc with
  | nil => rfl
  | cons x xs ih => simp [lastNEl, ih]

theorem lastNEl_rechunk (xs ys : List (List Nat)) :
    lastNEl [] (lastNEl [] xs :: ys) = lastNEl [] (xs ++ ys) := by
  rw [lastNEl_append]; simp only [lastNEl]; split <;> simp_all

/-! ### response meta -/

def NormMeta (om : Option Meta) : Prop :=
  ∀ m, om = some m → ∀ u, m.usage = some u → 0 ≤ u.prompt ∧ 0 ≤ u.completion ∧ 0 ≤ u.total

theorem imax_nonneg (a b : Int) (h : 0 ≤ b) : 0 ≤ imax a b := by
  unfold imax; split <;> omega

theorem imax_zero (a : Int) (h : 0 ≤ a) : imax a 0 = a := by
  unfold imax; split <;> omega

theorem stepMeta_norm (acc m : Option Meta) (h : NormMeta acc) : NormMeta (stepMeta acc m) := by
  cases m with
  | none => simpa [stepMeta] using h
  | some x =>
    intro r hr u hu
    simp only [stepMeta, Option.some.injEq] at hr
    subst hr
    simp only at hu
    cases hx : x.usage with
    | none =>
      simp only [hx] at hu
      cases acc with
      | none => simp at hu
      | some a => exact h a rfl u hu
    | some xu =>
      simp only [hx, Option.some.injEq] at hu
      subst hu
      cases acc with
      | none => simp [imax_nonneg]
      | some a =>
        cases ha : a.usage with
        | none => simp [imax_nonneg]
        | some au =>
          have := h a rfl au ha
          simp [imax_nonneg, this]

theorem stepMeta_none_id (r : Option Meta) (h : NormMeta r) : stepMeta none r = r := by
  cases r with
  | none => rfl
  | some x =>
    obtain ⟨f, u, l⟩ := x
    simp only [stepMeta, Option.some.injEq]
    congr 1
    · split <;> simp_all
    · cases u with
      | none => rfl
      | some uu =>
        have := h _ rfl uu rfl
        obtain ⟨p, c, t⟩ := uu
        simp at this
        simp [imax_zero, this]
    · cases l <;> simp

theorem foldl_stepMeta_norm (acc : Option Meta) (ms : List (Option Meta)) (h : NormMeta acc) :
    NormMeta (ms.foldl stepMeta acc) := by
  induction ms generalizing acc with
  | nil => exact h
  | cons m ms ih => exact ih _ (stepMeta_norm acc m h)

theorem concatMeta_norm (ms : List (Option Meta)) : NormMeta (concatMeta ms) :=
  foldl_stepMeta_norm none ms (by intro m hm; cases hm)

theorem concatMeta_rechunk (xs ys : List (Option Meta)) :
    concatMeta (concatMeta xs :: ys) = concatMeta (xs ++ ys) := by
  have h := stepMeta_none_id _ (concatMeta_norm xs)
  unfold concatMeta at *
  rw [List.foldl_cons, List.foldl_append, h]

/-! ### tool calls -/

def GSorted : List (Int × TC) → Prop
  | [] => True
  | (j, _) :: r => (∀ p ∈ r, j < p.1) ∧ GSorted r

def GInv (gs : List (Int × TC)) : Prop := GSorted gs ∧ ∀ p ∈ gs, p.2.index = some p.1

def SInv (s : TCState) : Prop := (∀ c ∈ s.nils, c.index = none) ∧ GInv s.groups

theorem mergeTC_index (cfg : Cfg) (g c g' : TC) (h : mergeTC cfg g c = .ok g') : g'.index = g.index := by
  unfold mergeTC at h
  cases h1 : pick cfg.tcIdCheck g.id c.id <;> simp [h1, bind, Except.bind] at h
  cases h2 : pick cfg.tcTypeCheck g.type c.type <;> simp [h2] at h
  cases h3 : pick cfg.tcNameCheck g.name c.name <;> simp [h3, pure, Except.pure] at h
  subst h; rfl

theorem insertG_keys (cfg : Cfg) (i : Int) (c : TC) (gs gs' : List (Int × TC))
    (h : insertG cfg i c gs = .ok gs') : ∀ p ∈ gs', p.1 = i ∨ ∃ q ∈ gs, q.1 = p.1 := by
  induction gs generalizing gs' with
  | nil =>
    simp [insertG] at h; subst h; intro p hp; simp at hp; subst hp; simp
  | cons hd rest ih =>
    obtain ⟨j, g⟩ := hd
    unfold insertG at h
    split at h
    · cases h; intro p hp
      simp only [List.mem_cons] at hp
      rcases hp with rfl | rfl | hp
      · simp
      · right; exact ⟨(j, g), by simp, rfl⟩
      · right; exact ⟨p, by simp [hp], rfl⟩
    · split at h
      · cases hm : mergeTC cfg g c <;> simp [hm, bind, Except.bind, pure, Except.pure] at h
        subst h; intro p hp
        simp only [List.mem_cons] at hp
        rcases hp with rfl | hp
        · right; exact ⟨(j, g), by simp, rfl⟩
        · right; exact ⟨p, by simp [hp], rfl⟩
      · cases hr : insertG cfg i c rest <;> simp [hr, bind, Except.bind, pure, Except.pure] at h
        subst h; intro p hp
        simp only [List.mem_cons] at hp
        rcases hp with rfl | hp
        · right; exact ⟨(j, g), by simp, rfl⟩
        · rcases ih _ hr p hp with h1 | ⟨q, hq, he⟩
          · left; exact h1
          · right; exact ⟨q, by simp [hq], he⟩

theorem insertG_inv (cfg : Cfg) (i : Int) (c : TC) (hc : c.index = some i) (gs gs' : List (Int × TC))
    (hi : GInv gs) (h : insertG cfg i c gs = .ok gs') : GInv gs' := by
  induction gs generalizing gs' with
  | nil =>
    simp [insertG] at h; subst h
    exact ⟨by simp [GSorted], by intro p hp; simp at hp; subst hp; exact hc⟩
  | cons hd rest ih =>
    obtain ⟨j, g⟩ := hd
    obtain ⟨⟨hlb, hs⟩, hidx⟩ := hi
    have hrest : GInv rest := ⟨hs, fun p hp => hidx p (by simp [hp])⟩
    unfold insertG at h
    split at h
    · rename_i hlt
      cases h
      refine ⟨⟨?_, hlb, hs⟩, ?_⟩
      · intro p hp
        simp only [List.mem_cons] at hp
        rcases hp with rfl | hp
        · exact hlt
        · have := hlb p hp; omega
      · intro p hp
        simp only [List.mem_cons] at hp
        rcases hp with rfl | hp
        · exact hc
        · exact hidx p (by simpa using hp)
    · split at h
      · rename_i heq
        cases hm : mergeTC cfg g c <;> simp [hm, bind, Except.bind, pure, Except.pure] at h
        rename_i g'
        subst h
        refine ⟨⟨hlb, hs⟩, ?_⟩
        intro p hp
        simp only [List.mem_cons] at hp
        rcases hp with rfl | hp
        · have := mergeTC_index _ _ _ _ hm
          have h0 := hidx (j, g) (by simp)
          simp_all
        · exact hidx p (by simp [hp])
      · rename_i hnlt hne
        cases hr : insertG cfg i c rest <;> simp [hr, bind, Except.bind, pure, Except.pure] at h
        rename_i r'
        subst h
        have ⟨hs', hidx'⟩ := ih r' hrest hr
        refine ⟨⟨?_, hs'⟩, ?_⟩
        · intro p hp
          rcases insertG_keys _ _ _ _ _ hr p hp with h1 | ⟨q, hq, he⟩
          · omega
          · have := hlb q hq; omega
        · intro p hp
          simp only [List.mem_cons] at hp
          rcases hp with rfl | hp
          · exact hidx (j, g) (by simp)
          · exact hidx' p hp

theorem stepTC_inv (cfg : Cfg) (s s' : TCState) (c : TC) (hi : SInv s) (h : stepTC cfg s c = .ok s') :
    SInv s' := by
  unfold stepTC at h
  split at h
  · rename_i hn
    cases h
    refine ⟨?_, hi.2⟩
    intro x hx
    simp only [List.mem_append, List.mem_singleton] at hx
    rcases hx with hx | rfl
    · exact hi.1 x hx
    · exact hn
  · rename_i i hsome
    cases hr : insertG cfg i c s.groups <;> simp [hr, bind, Except.bind, pure, Except.pure] at h
    subst h
    exact ⟨hi.1, insertG_inv cfg i c hsome _ _ hi.2 hr⟩

theorem foldlM_stepTC_inv (cfg : Cfg) (cs : List TC) (s s' : TCState) (hi : SInv s)
    (h : cs.foldlM (stepTC cfg) s = .ok s') : SInv s' := by
  induction cs generalizing s with
  | nil => simp [pure, Except.pure] at h; subst h; exact hi
  | cons c cs ih =>
    simp only [List.foldlM_cons] at h
    cases hs : stepTC cfg s c <;> simp [hs, bind, Except.bind] at h
    exact ih _ (stepTC_inv cfg _ _ _ hi hs) h

theorem insertG_gt (cfg : Cfg) (i : Int) (c : TC) (gs : List (Int × TC)) (h : ∀ p ∈ gs, p.1 < i) :
    insertG cfg i c gs = .ok (gs ++ [(i, c)]) := by
  induction gs with
  | nil => rfl
  | cons hd rest ih =>
    obtain ⟨j, g⟩ := hd
    have hj : j < i := h (j, g) (by simp)
    unfold insertG
    rw [if_neg (by omega), if_neg (by omega), ih (fun p hp => h p (by simp [hp]))]
    rfl

theorem refold_nils (cfg : Cfg) (ns : List TC) (hn : ∀ c ∈ ns, c.index = none) (n0 : List TC) (g0 : List (Int × TC)) :
    ns.foldlM (stepTC cfg) ⟨n0, g0⟩ = .ok ⟨n0 ++ ns, g0⟩ := by
  induction ns generalizing n0 with
  | nil => simp [List.foldlM, pure, Except.pure]
  | cons c ns ih =>
    have hc : c.index = none := hn c (by simp)
    simp only [List.foldlM_cons, stepTC, hc, bind, Except.bind]
    rw [ih (fun x hx => hn x (by simp [hx]))]
    simp

theorem gsorted_append_lt (g0 : List (Int × TC)) (i : Int) (t : TC) (hs : List (Int × TC))
    (h : GSorted (g0 ++ (i, t) :: hs)) : ∀ p ∈ g0, p.1 < i := by
  induction g0 with
  | nil => intro p hp; cases hp
  | cons hd rest ih =>
    obtain ⟨j, g⟩ := hd
    simp only [List.cons_append, GSorted] at h
    intro p hp
    simp only [List.mem_cons] at hp
    rcases hp with rfl | hp
    · exact h.1 (i, t) (by simp)
    · exact ih h.2 p hp

theorem refold_groups (cfg : Cfg) (hs : List (Int × TC)) (n : List TC) (g0 : List (Int × TC))
    (hi : GInv (g0 ++ hs)) :
    (hs.map (·.2)).foldlM (stepTC cfg) ⟨n, g0⟩ = .ok ⟨n, g0 ++ hs⟩ := by
  induction hs generalizing g0 with
  | nil => simp [List.foldlM, pure, Except.pure]
  | cons hd rest ih =>
    obtain ⟨i, t⟩ := hd
    have hidx : t.index = some i := hi.2 (i, t) (by simp)
    have hlt := gsorted_append_lt g0 i t rest hi.1
    simp only [List.map_cons, List.foldlM_cons, stepTC, hidx, bind, Except.bind, insertG_gt cfg i t g0 hlt,
      pure, Except.pure]
    have := ih (g0 ++ [(i, t)]) (by simpa using hi)
    simpa using this

theorem refold_out (cfg : Cfg) (s : TCState) (hi : SInv s) :
    s.out.foldlM (stepTC cfg) ⟨[], []⟩ = .ok s := by
  unfold TCState.out
  rw [List.foldlM_append, refold_nils cfg s.nils hi.1]
  simp only [bind, Except.bind, List.nil_append]
  have := refold_groups cfg s.groups s.nils [] (by simpa using hi.2)
  simpa using this

theorem sinv_init : SInv ⟨[], []⟩ := ⟨by simp, by simp [GSorted], by simp⟩

/-- re-chunking law for tool calls, as an exact equality -/
theorem concatTC_rechunk (cfg : Cfg) (xs ys : List TC) :
    (concatTC cfg xs >>= fun r => concatTC cfg (r ++ ys)) = concatTC cfg (xs ++ ys) := by
  unfold concatTC
  rw [List.foldlM_append]
  cases hx : xs.foldlM (stepTC cfg) ⟨[], []⟩ with
  | error e => rfl
  | ok s =>
    have hi := foldlM_stepTC_inv cfg xs _ _ sinv_init hx
    simp only [bind, Except.bind, pure, Except.pure]
    rw [List.foldlM_append, refold_out cfg s hi]
    rfl

/-! ### keys in first-appearance order, gathered values -/

theorem mem_keysOf (l : List String) (k : String) : k ∈ keysOf l ↔ k ∈ l := by
  induction l with
  | nil => simp [keysOf]
  | cons x xs ih =>
    simp only [keysOf, List.mem_cons, List.mem_filter, ih, bne_iff_ne, ne_eq]
    constructor
    · rintro (h | ⟨h, _⟩)
      · exact Or.inl h
      · exact Or.inr h
    · intro h
      by_cases hk : k = x
      · exact Or.inl hk
      · rcases h with h | h
        · exact Or.inl h
        · exact Or.inr ⟨h, hk⟩

theorem keysOf_nodup (l : List String) : (keysOf l).Nodup := by
  induction l with
  | nil => simp [keysOf]
  | cons x xs ih =>
    simp only [keysOf, List.nodup_cons, List.mem_filter, bne_iff_ne, ne_eq, not_and, Decidable.not_not]
    exact ⟨fun _ => trivial, ih.filter _⟩

theorem filter_ne_of_not_mem (l : List String) (k : String) (h : k ∉ l) :
    l.filter (fun x => x != k) = l := by
  rw [List.filter_eq_self]
  intro a ha
  simp only [bne_iff_ne, ne_eq]
  intro e; subst e; exact h ha

theorem keysOf_of_nodup (l : List String) (h : l.Nodup) : keysOf l = l := by
  induction l with
  | nil => rfl
  | cons x xs ih =>
    rw [List.nodup_cons] at h
    simp only [keysOf, ih h.2, filter_ne_of_not_mem xs x h.1]

theorem keysOf_append (a b : List String) :
    keysOf (a ++ b) = keysOf a ++ (keysOf b).filter (fun k => !a.contains k) := by
  induction a with
  | nil =>
    simp only [List.nil_append, keysOf, List.contains_nil, Bool.not_false]
    exact (List.filter_eq_self.2 (fun _ _ => rfl)).symm
  | cons x xs ih =>
    simp only [List.cons_append, keysOf, ih, List.filter_append, List.filter_filter, List.cons.injEq, true_and]
    congr 1
    apply List.filter_congr
    intro k _
    simp only [List.contains_cons, Bool.not_or, bne]

theorem keysOf_keysOf_append (a b : List String) : keysOf (keysOf a ++ b) = keysOf (a ++ b) := by
  rw [keysOf_append, keysOf_append, keysOf_of_nodup _ (keysOf_nodup a)]
  congr 1
  apply List.filter_congr
  intro k _
  congr 1
  rw [Bool.eq_iff_iff]
  simp [mem_keysOf]

theorem vals_append (a b : KVs) (k : String) : vals (a ++ b) k = vals a k ++ vals b k := by
  simp [vals]

theorem vals_of_not_mem (r : KVs) (k : String) (h : k ∉ r.map (·.1)) : vals r k = [] := by
  simp only [vals, List.map_eq_nil_iff, List.filter_eq_nil_iff, beq_iff_eq]
  intro p hp e
  exact h (by simp only [List.mem_map]; exact ⟨p, hp, e⟩)

theorem vals_ne_nil (r : KVs) (k : String) (h : k ∈ r.map (·.1)) : vals r k ≠ [] := by
  simp only [List.mem_map] at h
  obtain ⟨p, hp, e⟩ := h
  intro hnil
  simp only [vals, List.map_eq_nil_iff, List.filter_eq_nil_iff] at hnil
  exact hnil p hp (by simp [e])

theorem vals_of_nodup (r : KVs) (h : (r.map (·.1)).Nodup) (k : String) (v : XVal) (hm : (k, v) ∈ r) :
    vals r k = [v] := by
  induction r with
  | nil => cases hm
  | cons hd tl ih =>
    simp only [List.map_cons, List.nodup_cons] at h
    simp only [List.mem_cons] at hm
    rcases hm with rfl | hm
    · have : vals tl k = [] := vals_of_not_mem tl k h.1
      simp only [vals] at this ⊢
      simp [this]
    · have hne : hd.1 ≠ k := by
        intro e; apply h.1; simp only [List.mem_map]; exact ⟨(k, v), hm, e.symm⟩
      have := ih h.2 hm
      simp only [vals] at this ⊢
      simp [hne, this]

/-! ### per-key map construction -/

def buildM (f : String → Except Err XVal) (ks : List String) : Except Err KVs :=
  ks.mapM (fun k => do let v ← f k; pure (k, v))

theorem buildM_nil (f : String → Except Err XVal) : buildM f [] = .ok [] := rfl

theorem buildM_cons (f : String → Except Err XVal) (k : String) (ks : List String) :
    buildM f (k :: ks) = (do let v ← f k; let r ← buildM f ks; pure ((k, v) :: r)) := by
  simp [buildM, List.mapM_cons]

theorem buildM_ok (f : String → Except Err XVal) (ks : List String) (r : KVs) (h : buildM f ks = .ok r) :
    r.map (·.1) = ks ∧ ∀ p ∈ r, f p.1 = .ok p.2 := by
  induction ks generalizing r with
  | nil => simp [buildM_nil] at h; subst h; simp
  | cons k ks ih =>
    rw [buildM_cons] at h
    cases hf : f k <;> simp [hf, bind, Except.bind] at h
    cases hb : buildM f ks <;> simp [hb, pure, Except.pure] at h
    subst h
    have ⟨h1, h2⟩ := ih _ hb
    refine ⟨by simp [h1], ?_⟩
    intro p hp
    simp only [List.mem_cons] at hp
    rcases hp with rfl | hp
    · exact hf
    · exact h2 p hp

theorem buildM_error (f : String → Except Err XVal) (ks : List String) (e : Err) (h : buildM f ks = .error e) :
    ∃ k ∈ ks, f k = .error e := by
  induction ks with
  | nil => simp [buildM_nil] at h
  | cons k ks ih =>
    rw [buildM_cons] at h
    cases hf : f k with
    | error e' => simp [hf, bind, Except.bind] at h; subst h; exact ⟨k, by simp, hf⟩
    | ok v =>
      simp [hf, bind, Except.bind] at h
      cases hb : buildM f ks with
      | error e' =>
        simp [hb] at h; subst h
        obtain ⟨k', hk', he⟩ := ih hb
        exact ⟨k', by simp [hk'], he⟩
      | ok r => simp [hb, pure, Except.pure] at h

theorem buildM_error_of (f : String → Except Err XVal) (ks : List String) (k : String) (hk : k ∈ ks) (e : Err)
    (h : f k = .error e) : ∃ e', buildM f ks = .error e' := by
  induction ks with
  | nil => cases hk
  | cons k0 ks ih =>
    rw [buildM_cons]
    cases hf : f k0 with
    | error e' => exact ⟨e', rfl⟩
    | ok v =>
      simp only [List.mem_cons] at hk
      rcases hk with rfl | hk
      · rw [hf] at h; cases h
      · obtain ⟨e', he⟩ := ih hk
        exact ⟨e', by simp [bind, Except.bind, he]⟩

theorem buildM_congr (f f' : String → Except Err XVal) (ks : List String)
    (h : ∀ k ∈ ks, EqvE (f k) (f' k)) : EqvE (buildM f ks) (buildM f' ks) := by
  induction ks with
  | nil => simp [buildM_nil, EqvE]
  | cons k ks ih =>
    rw [buildM_cons, buildM_cons]
    have hk := h k (by simp)
    have ih' := ih (fun k' hk' => h k' (by simp [hk']))
    cases hf : f k <;> cases hf' : f' k <;> simp [hf, hf', EqvE] at hk
    · simp [bind, Except.bind, EqvE]
    · subst hk
      cases hb : buildM f ks <;> cases hb' : buildM f' ks <;> simp [hb, hb', EqvE] at ih'
      · simp [bind, Except.bind, EqvE]
      · subst ih'; simp [bind, Except.bind, pure, Except.pure, EqvE]


/-! ### concatSliceValue rules -/

theorem EqvE.error_left {α} {e : Err} {b : Except Err α} (h : EqvE (.error e) b) : ∃ e', b = .error e' := by
  cases b with
  | error e' => exact ⟨e', rfl⟩
  | ok v => simp [EqvE] at h

theorem combineSc_sc (r : Rule) (ty : String) (l : List String) (x : XVal) (h : combineSc r ty l = .ok x) :
    ∃ u, x = .sc ty u := by
  unfold combineSc at h
  cases r <;> simp only at h
  · cases h; exact ⟨_, rfl⟩
  · split at h <;> cases h; exact ⟨_, rfl⟩
  · split at h <;> cases h <;> exact ⟨_, rfl⟩

theorem combineSc_rechunk (r : Rule) (ty : String) (l qs : List String) (u : String) (hl : l ≠ [])
    (h : combineSc r ty l = .ok (.sc ty u)) : combineSc r ty (u :: qs) = combineSc r ty (l ++ qs) := by
  unfold combineSc at h ⊢
  cases r <;> simp only at h ⊢
  · simp only [Except.ok.injEq, XVal.sc.injEq, true_and] at h
    subst h; rw [joinS_rechunk]
  · split at h <;> simp only [Except.ok.injEq, XVal.sc.injEq, true_and, reduceCtorEq] at h
    subst h
    rename_i v hv
    cases qs with
    | nil => simp [hv]
    | cons q qs' =>
      rw [List.getLast?_cons_cons, List.getLast?_append]
      cases hg : (q :: qs').getLast? with
      | none => simp at hg
      | some z => simp
  · split at h <;> simp only [Except.ok.injEq, XVal.sc.injEq, true_and, reduceCtorEq] at h
    · rename_i hf; subst h
      simp [List.filter_append, hf, List.filter_cons]
    · rename_i v hf; subst h
      have hv : (v != "") = true := by
        have : v ∈ l.filter (fun v => v != "") := by rw [hf]; simp
        exact (List.mem_filter.1 this).2
      simp [List.filter_append, hf, List.filter_cons, hv]

theorem combineSc_mono (r : Rule) (ty : String) (l qs : List String) (e : Err) (hl : l ≠ [])
    (h : combineSc r ty l = .error e) : ∃ e', combineSc r ty (l ++ qs) = .error e' := by
  unfold combineSc at h ⊢
  cases r <;> simp only at h ⊢
  · cases h
  · split at h
    · rename_i hn
      simp [List.getLast?_eq_none_iff] at hn
      exact absurd hn hl
    · cases h
  · split at h
    · cases h
    · cases h
    · rename_i a b t hf
      simp [List.filter_append, hf]

/-! ### one key -/

theorem mapM_append_except {α β} (f : α → Except Err β) (l l' : List α) :
    (l ++ l').mapM f = (do let a ← l.mapM f; let b ← l'.mapM f; pure (a ++ b)) := by
  simp [List.mapM_append]

theorem perKeyW_nonnil (cfg : Cfg) (rec : List KVs → Except Err KVs) (ws : List XVal) (hws : ws ≠ [])
    (r : XVal) (h : perKeyW cfg rec ws = .ok r) : r.isNil = false := by
  cases ws with
  | nil => exact absurd rfl hws
  | cons w rest =>
    cases w with
    | nil => simp [perKeyW] at h
    | sc ty v =>
      simp only [perKeyW] at h
      cases hp : rest.mapM (asSc ty) <;> simp [hp, bind, Except.bind] at h
      obtain ⟨u, hu⟩ := combineSc_sc _ _ _ _ h
      subst hu; rfl
    | map kvs =>
      simp only [perKeyW] at h
      cases hp : rest.mapM asMap <;> simp [hp, bind, Except.bind] at h
      rename_i ms
      cases hr : rec (kvs :: ms) <;> simp [hr, pure, Except.pure] at h
      subst h; rfl

theorem perKeyW_rechunk (cfg : Cfg) (rec : List KVs → Except Err KVs)
    (hrec : ∀ ms ms', ms ≠ [] → EqvE (rec ms >>= fun r => rec (r :: ms')) (rec (ms ++ ms')))
    (wa wb : List XVal) (hwa : wa ≠ []) :
    EqvE (perKeyW cfg rec wa >>= fun r => perKeyW cfg rec (r :: wb)) (perKeyW cfg rec (wa ++ wb)) := by
  cases wa with
  | nil => exact absurd rfl hwa
  | cons w rest =>
    cases w with
    | nil => simp [perKeyW, bind, Except.bind, EqvE]
    | sc ty v =>
      simp only [List.cons_append, perKeyW, mapM_append_except]
      cases hp : rest.mapM (asSc ty) with
      | error e => simp [bind, Except.bind, EqvE]
      | ok ps =>
        simp only [bind, Except.bind]
        cases hc : combineSc (cfg.rule ty) ty (v :: ps) with
        | error e =>
          simp only
          cases hq : wb.mapM (asSc ty) with
          | error e' => simp [EqvE]
          | ok qs =>
            obtain ⟨e', he⟩ := combineSc_mono _ _ (v :: ps) qs e (by simp) hc
            simp only [pure, Except.pure, ← List.cons_append, he, EqvE]
        | ok x =>
          obtain ⟨u, hu⟩ := combineSc_sc _ _ _ _ hc
          subst hu
          simp only [perKeyW, bind, Except.bind]
          cases hq : wb.mapM (asSc ty) with
          | error e' => simp [EqvE]
          | ok qs =>
            simp only [pure, Except.pure]
            rw [combineSc_rechunk _ _ (v :: ps) qs u (by simp) hc]
            exact EqvE.rfl' _
    | map kvs =>
      simp only [List.cons_append, perKeyW, mapM_append_except]
      cases hp : rest.mapM asMap with
      | error e => simp [bind, Except.bind, EqvE]
      | ok ms =>
        simp only [bind, Except.bind]
        have hr := hrec (kvs :: ms)
        cases hc : rec (kvs :: ms) with
        | error e =>
          simp only
          cases hq : wb.mapM asMap with
          | error e' => simp [EqvE]
          | ok ms' =>
            have := hr ms' (by simp)
            rw [hc] at this
            obtain ⟨e', he⟩ := EqvE.error_left this
            simp only [pure, Except.pure, ← List.cons_append, he, EqvE]
        | ok r =>
          simp only [pure, Except.pure, perKeyW, bind, Except.bind]
          cases hq : wb.mapM asMap with
          | error e' => simp [EqvE]
          | ok ms' =>
            have := hr ms' (by simp)
            rw [hc] at this
            simp only [bind, Except.bind, List.cons_append] at this
            simp only
            cases h1 : rec (r :: ms') <;> cases h2 : rec (kvs :: (ms ++ ms')) <;>
              simp [h1, h2, EqvE] at this ⊢
            exact this

theorem dropNil_append (cfg : Cfg) (a b : List XVal) : dropNil cfg (a ++ b) = dropNil cfg a ++ dropNil cfg b := by
  unfold dropNil; split <;> simp

theorem dropNil_cons_nonnil (cfg : Cfg) (r : XVal) (b : List XVal) (h : r.isNil = false) :
    dropNil cfg (r :: b) = r :: dropNil cfg b := by
  unfold dropNil; split <;> simp [h]

theorem dropNil_cons_nil (cfg : Cfg) (b : List XVal) (h : cfg.nilAbsent = true) :
    dropNil cfg (.nil :: b) = dropNil cfg b := by
  unfold dropNil; simp [h, XVal.isNil]

theorem perKey_rechunk (cfg : Cfg) (rec : List KVs → Except Err KVs)
    (hrec : ∀ ms ms', ms ≠ [] → EqvE (rec ms >>= fun r => rec (r :: ms')) (rec (ms ++ ms')))
    (va vb : List XVal) (hva : va ≠ []) :
    EqvE (perKey cfg rec va >>= fun r => perKey cfg rec (r :: vb)) (perKey cfg rec (va ++ vb)) := by
  unfold perKey
  rw [dropNil_append]
  by_cases hw : dropNil cfg va = []
  · have hg : cfg.nilAbsent = true := by
      cases hb : cfg.nilAbsent with
      | true => rfl
      | false => simp [dropNil, hb] at hw; exact absurd hw hva
    simp only [hw, perKeyW, bind, Except.bind, List.nil_append, dropNil_cons_nil cfg vb hg]
    exact EqvE.rfl' _
  · have key := perKeyW_rechunk cfg rec hrec (dropNil cfg va) (dropNil cfg vb) hw
    cases hx : perKeyW cfg rec (dropNil cfg va) with
    | error e => rw [hx] at key; simpa [bind, Except.bind] using key
    | ok r =>
      rw [hx] at key
      have hn := perKeyW_nonnil cfg rec _ hw r hx
      simp only [bind, Except.bind] at key ⊢
      rw [dropNil_cons_nonnil cfg r vb hn]
      exact key


/-! ### whole maps -/

theorem build_rechunk (h : List XVal → Except Err XVal)
    (PK : ∀ va vb, va ≠ [] → EqvE (h va >>= fun r => h (r :: vb)) (h (va ++ vb))) (A B : KVs) :
    EqvE (buildM (fun k => h (vals A k)) (keysOf (A.map (·.1))) >>= fun r =>
            buildM (fun k => h (vals (r ++ B) k)) (keysOf ((r ++ B).map (·.1))))
         (buildM (fun k => h (vals (A ++ B) k)) (keysOf ((A ++ B).map (·.1)))) := by
  cases hA : buildM (fun k => h (vals A k)) (keysOf (A.map (·.1))) with
  | error e =>
    obtain ⟨k, hk, he⟩ := buildM_error _ _ _ hA
    have hkA : k ∈ A.map (·.1) := (mem_keysOf _ _).1 hk
    have hpk := PK (vals A k) (vals B k) (vals_ne_nil A k hkA)
    rw [he] at hpk
    obtain ⟨e'', he''⟩ := EqvE.error_left hpk
    have hk' : k ∈ keysOf ((A ++ B).map (·.1)) := by
      rw [mem_keysOf]; simp only [List.map_append, List.mem_append]; exact Or.inl hkA
    obtain ⟨e3, he3⟩ := buildM_error_of (fun k => h (vals (A ++ B) k)) _ k hk' e'' (by simpa [vals_append] using he'')
    rw [he3]; simp [bind, Except.bind, EqvE]
  | ok r =>
    obtain ⟨hkeys, hvals⟩ := buildM_ok _ _ _ hA
    simp only [bind, Except.bind]
    have hnd : (r.map (·.1)).Nodup := by rw [hkeys]; exact keysOf_nodup _
    have hK : keysOf ((r ++ B).map (·.1)) = keysOf ((A ++ B).map (·.1)) := by
      simp only [List.map_append, hkeys, keysOf_keysOf_append]
    rw [hK]
    apply buildM_congr
    intro k _
    simp only [vals_append]
    by_cases hkA : k ∈ A.map (·.1)
    · have hkr : k ∈ r.map (·.1) := by rw [hkeys, mem_keysOf]; exact hkA
      simp only [List.mem_map] at hkr
      obtain ⟨p, hp, hpk⟩ := hkr
      obtain ⟨k', v⟩ := p
      simp only at hpk; subst hpk
      rw [vals_of_nodup r hnd _ v hp]
      have hv := hvals _ hp
      simp only at hv
      have hpk := PK (vals A k') (vals B k') (vals_ne_nil A k' hkA)
      rw [hv] at hpk
      simpa [bind, Except.bind] using hpk
    · have hkr : k ∉ r.map (·.1) := by rw [hkeys, mem_keysOf]; exact hkA
      rw [vals_of_not_mem r k hkr, vals_of_not_mem A k hkA]
      exact EqvE.rfl' _

theorem concatEvs_succ (cfg : Cfg) (n : Nat) (evs : KVs) :
    concatEvs cfg (n + 1) evs =
      buildM (fun k => perKey cfg (fun ms => concatEvs cfg n ms.flatten) (vals evs k)) (keysOf (evs.map (·.1))) := rfl

/-- re-chunking law for `map[string]any` (on the flattened occurrences) -/
theorem concatEvs_rechunk (cfg : Cfg) (n : Nat) (A B : KVs) :
    EqvE (concatEvs cfg n A >>= fun r => concatEvs cfg n (r ++ B)) (concatEvs cfg n (A ++ B)) := by
  induction n generalizing A B with
  | zero => simp [concatEvs, bind, Except.bind, EqvE]
  | succ n ih =>
    simp only [concatEvs_succ]
    apply build_rechunk (perKey cfg (fun ms => concatEvs cfg n ms.flatten))
    intro va vb hva
    apply perKey_rechunk _ _ _ va vb hva
    intro ms ms' _
    simpa using ih ms.flatten ms'.flatten

theorem concatMaps_rechunk (cfg : Cfg) (n : Nat) (xs ys : List KVs) :
    EqvE (concatMaps cfg n xs >>= fun r => concatMaps cfg n (r :: ys)) (concatMaps cfg n (xs ++ ys)) := by
  simpa [concatMaps] using concatEvs_rechunk cfg n xs.flatten ys.flatten

/-! ### no panic with the nil guard; fuel adequacy -/

theorem mapM_mem_ok {α β} (f : α → Except Err β) (l : List α) (r : List β) (h : l.mapM f = .ok r) :
    ∀ y ∈ r, ∃ x ∈ l, f x = .ok y := by
  induction l generalizing r with
  | nil => simp [pure, Except.pure] at h; subst h; intro y hy; cases hy
  | cons a l ih =>
    rw [List.mapM_cons] at h
    cases ha : f a <;> simp [ha, bind, Except.bind] at h
    cases hl : l.mapM f <;> simp [hl, pure, Except.pure] at h
    subst h
    intro y hy
    simp only [List.mem_cons] at hy
    rcases hy with rfl | hy
    · exact ⟨a, by simp, ha⟩
    · obtain ⟨x, hx, hfx⟩ := ih _ hl y hy
      exact ⟨x, by simp [hx], hfx⟩

theorem mapM_error_mem {α β} (f : α → Except Err β) (l : List α) (e : Err) (h : l.mapM f = .error e) :
    ∃ x ∈ l, f x = .error e := by
  induction l with
  | nil => simp [pure, Except.pure] at h
  | cons a l ih =>
    rw [List.mapM_cons] at h
    cases ha : f a with
    | error e' => simp [ha, bind, Except.bind] at h; subst h; exact ⟨a, by simp, ha⟩
    | ok v =>
      simp [ha, bind, Except.bind] at h
      cases hl : l.mapM f with
      | error e' =>
        simp [hl] at h; subst h
        obtain ⟨x, hx, hfx⟩ := ih hl
        exact ⟨x, by simp [hx], hfx⟩
      | ok r => simp [hl, pure, Except.pure] at h

theorem asSc_fail (ty : String) (x : XVal) (e : Err) (h : asSc ty x = .error e) : e = .fail := by
  unfold asSc at h; split at h
  · split at h <;> cases h; rfl
  · cases h; rfl

theorem asMap_fail (x : XVal) (e : Err) (h : asMap x = .error e) : e = .fail := by
  unfold asMap at h; split at h <;> cases h; rfl

theorem combineSc_err (r : Rule) (ty : String) (v : String) (ps : List String) (e : Err)
    (h : combineSc r ty (v :: ps) = .error e) : e = .fail := by
  unfold combineSc at h
  cases r <;> simp only at h
  · cases h
  · split at h
    · rename_i hn; simp [List.getLast?_eq_none_iff] at hn
    · cases h
  · split at h <;> cases h; rfl

/-- errors of one key: either an ordinary failure, or the nil-type panic (only without the
    guard), or whatever the nested concatenation reports -/
theorem perKey_err (cfg : Cfg) (rec : List KVs → Except Err KVs) (vs : List XVal) (e : Err)
    (h : perKey cfg rec vs = .error e) :
    e = .fail ∨ (e = .panic ∧ cfg.nilAbsent = false) ∨
      ∃ ms, ms ≠ [] ∧ (∀ m ∈ ms, .map m ∈ vs) ∧ rec ms = .error e := by
  unfold perKey at h
  have hsub : ∀ x ∈ dropNil cfg vs, x ∈ vs ∧ (cfg.nilAbsent = true → x.isNil = false) := by
    intro x hx; unfold dropNil at hx
    split at hx
    · rename_i hg; simp only [List.mem_filter, Bool.not_eq_eq_eq_not, Bool.not_true] at hx
      exact ⟨hx.1, fun _ => hx.2⟩
    · rename_i hg; exact ⟨hx, fun hh => absurd hh hg⟩
  cases hd : dropNil cfg vs with
  | nil => simp [hd, perKeyW] at h
  | cons w rest =>
    rw [hd] at h hsub
    cases w with
    | nil =>
      simp only [perKeyW] at h; cases h
      right; left; refine ⟨rfl, ?_⟩
      cases hg : cfg.nilAbsent with
      | false => rfl
      | true => have := (hsub .nil (by simp)).2 hg; simp [XVal.isNil] at this
    | sc ty v =>
      simp only [perKeyW] at h
      cases hp : rest.mapM (asSc ty) with
      | error e' =>
        simp [hp, bind, Except.bind] at h; subst h
        obtain ⟨x, _, hx⟩ := mapM_error_mem _ _ _ hp
        exact Or.inl (asSc_fail _ _ _ hx)
      | ok ps =>
        simp [hp, bind, Except.bind] at h
        exact Or.inl (combineSc_err _ _ _ _ _ h)
    | map kvs =>
      simp only [perKeyW] at h
      cases hp : rest.mapM asMap with
      | error e' =>
        simp [hp, bind, Except.bind] at h; subst h
        obtain ⟨x, _, hx⟩ := mapM_error_mem _ _ _ hp
        exact Or.inl (asMap_fail _ _ hx)
      | ok ms =>
        simp [hp, bind, Except.bind] at h
        cases hr : rec (kvs :: ms) with
        | ok r => simp [hr, pure, Except.pure] at h
        | error e' =>
          simp [hr] at h; subst h
          right; right
          refine ⟨kvs :: ms, by simp, ?_, hr⟩
          intro m hm
          simp only [List.mem_cons] at hm
          rcases hm with rfl | hm
          · exact (hsub _ (by simp)).1
          · obtain ⟨x, hx, hfx⟩ := mapM_mem_ok _ _ _ hp m hm
            have : x = .map m := by
              unfold asMap at hfx; split at hfx <;> cases hfx; rfl
            subst this
            exact (hsub _ (by simp [hx])).1

theorem concatEvs_no_panic (cfg : Cfg) (hg : cfg.nilAbsent = true) (n : Nat) (evs : KVs) :
    concatEvs cfg n evs ≠ .error .panic := by
  induction n generalizing evs with
  | zero => simp [concatEvs]
  | succ n ih =>
    intro h
    rw [concatEvs_succ] at h
    obtain ⟨k, _, he⟩ := buildM_error _ _ _ h
    rcases perKey_err _ _ _ _ he with h1 | ⟨_, h2⟩ | ⟨ms, _, _, h3⟩
    · cases h1
    · rw [hg] at h2; cases h2
    · exact ih _ h3

theorem depth_map (m : KVs) : (XVal.map m).depth = 1 + depthKVs m := by
  simp [XVal.depth, depthKVs]

theorem depthKVs_cons (k : String) (v : XVal) (r : KVs) : depthKVs ((k, v) :: r) = max v.depth (depthKVs r) := by
  simp [depthKVs, XVal.depth.go]

theorem depth_mem (evs : KVs) (k : String) (v : XVal) (h : (k, v) ∈ evs) : v.depth ≤ depthKVs evs := by
  induction evs with
  | nil => cases h
  | cons hd tl ih =>
    obtain ⟨k', v'⟩ := hd
    rw [depthKVs_cons]
    simp only [List.mem_cons, Prod.mk.injEq] at h
    rcases h with ⟨_, rfl⟩ | h
    · omega
    · have := ih h; omega

theorem depthKVs_append (a b : KVs) : depthKVs (a ++ b) = max (depthKVs a) (depthKVs b) := by
  induction a with
  | nil => simp [depthKVs, XVal.depth.go]
  | cons hd tl ih =>
    obtain ⟨k, v⟩ := hd
    simp only [List.cons_append, depthKVs_cons, ih]; omega

theorem depthKVs_flatten (ms : List KVs) (d : Nat) (h : ∀ m ∈ ms, depthKVs m ≤ d) : depthKVs ms.flatten ≤ d := by
  induction ms with
  | nil => simp [depthKVs, XVal.depth.go]
  | cons m ms ih =>
    simp only [List.flatten_cons, depthKVs_append]
    have h1 := h m (by simp)
    have h2 := ih (fun m' hm' => h m' (by simp [hm']))
    omega

theorem mem_vals (evs : KVs) (k : String) (v : XVal) (h : v ∈ vals evs k) : (k, v) ∈ evs := by
  simp only [vals, List.mem_map, List.mem_filter, beq_iff_eq] at h
  obtain ⟨p, ⟨hp, hk⟩, hv⟩ := h
  obtain ⟨k', v'⟩ := p
  simp only at hk hv; subst hk; subst hv; exact hp

/-- with more fuel than the nesting depth the fuel error is unreachable -/
theorem concatEvs_fuel_ok (cfg : Cfg) (n : Nat) (evs : KVs) (hd : depthKVs evs < n) :
    concatEvs cfg n evs ≠ .error .fuel := by
  induction n generalizing evs with
  | zero => omega
  | succ n ih =>
    intro h
    rw [concatEvs_succ] at h
    obtain ⟨k, _, he⟩ := buildM_error _ _ _ h
    rcases perKey_err _ _ _ _ he with h1 | ⟨h2, _⟩ | ⟨ms, hne, hms, h3⟩
    · cases h1
    · cases h2
    · refine ih ms.flatten ?_ h3
      have : ∀ m ∈ ms, depthKVs m ≤ n - 1 := by
        intro m hm
        have h1 := depth_mem evs k _ (mem_vals evs k _ (hms m hm))
        rw [depth_map] at h1
        omega
      have := depthKVs_flatten ms (n - 1) this
      have hpos : 0 < n := by
        cases ms with
        | nil => exact absurd rfl hne
        | cons m _ =>
          have h1 := depth_mem evs k _ (mem_vals evs k _ (hms m (by simp)))
          rw [depth_map] at h1; omega
      omega

end EinoV.C14
