import EinoV.Model.C14
namespace EinoV.C14
end EinoV.C14
