/-
  C14 — helper lemmas for the re-chunking law, totality and the tool-call spec.
-/
import EinoV.Model.C14
set_option linter.unusedSimpArgs false
set_option linter.unusedVariables false
namespace EinoV.C14

/-- "equal results or both errors" -/
def EqvE {α} (a b : Except Err α) : Prop :=
  match a, b with
  | .ok x, .ok y => x = y
  | .error _, .error _ => True
  | _, _ => False

theorem EqvE.rfl' {α} (a : Except Err α) : EqvE a a := by
  cases a <;> simp [EqvE]

theorem EqvE.of_eq {α} {a b : Except Err α} (h : a = b) : EqvE a b := h ▸ EqvE.rfl' a

/-! ### strings -/

theorem joinS_append (xs ys : List String) : joinS (xs ++ ys) = joinS xs ++ joinS ys := by
  induction xs with
  | nil => simp [joinS, String.empty_append]
  | cons x xs ih => simp [joinS, ih, String.append_assoc]

theorem joinS_rechunk (xs ys : List String) : joinS (joinS xs :: ys) = joinS (xs ++ ys) := by
  simp [joinS, joinS_append]

/-! ### first non-empty with conflict check -/

theorem pick_empty_left (c : Bool) (x : String) : pick c "" x = .ok x := by
  unfold pick; split <;> simp_all

theorem firstNE_append (c : Bool) (acc : String) (xs ys : List String) :
    firstNE c acc (xs ++ ys) = (firstNE c acc xs >>= fun r => firstNE c r ys) := by
  induction xs generalizing acc with
  | nil => simp [firstNE]; rfl
  | cons x xs ih =>
    simp only [List.cons_append, firstNE]
    cases pick c acc x with
    | error e => rfl
    | ok a => simpa [bind, Except.bind] using ih a

theorem firstNE_cons_empty (c : Bool) (r : String) (ys : List String) :
    firstNE c "" (r :: ys) = firstNE c r ys := by
  simp [firstNE, pick_empty_left, bind, Except.bind]

theorem firstNE_rechunk (c : Bool) (xs ys : List String) :
    (firstNE c "" xs >>= fun r => firstNE c "" (r :: ys)) = firstNE c "" (xs ++ ys) := by
  rw [firstNE_append]; simp only [firstNE_cons_empty]

/-! ### last non-empty -/

theorem lastNEl_append (acc : List Nat) (xs ys : List (List Nat)) :
    lastNEl acc (xs ++ ys) = lastNEl (lastNEl acc xs) ys := by
  induction xs generalizing acc with
  | nil => rfl
  | cons x xs ih => simp [lastNEl, ih]

theorem lastNEl_rechunk (xs ys : List (List Nat)) :
    lastNEl [] (lastNEl [] xs :: ys) = lastNEl [] (xs ++ ys) := by
  rw [lastNEl_append]; simp only [lastNEl]; split <;> simp_all

/-! ### response meta -/

def NormMeta (om : Option Meta) : Prop :=
  ∀ m, om = some m → ∀ u, m.usage = some u → 0 ≤ u.prompt ∧ 0 ≤ u.completion ∧ 0 ≤ u.total

theorem imax_nonneg (a b : Int) (h : 0 ≤ b) : 0 ≤ imax a b := by
  unfold imax; split <;> omega

theorem imax_zero (a : Int) (h : 0 ≤ a) : imax a 0 = a := by
  unfold imax; split <;> omega

theorem stepMeta_norm (acc m : Option Meta) (h : NormMeta acc) : NormMeta (stepMeta acc m) := by
  cases m with
  | none => simpa [stepMeta] using h
  | some x =>
    intro r hr u hu
    simp only [stepMeta, Option.some.injEq] at hr
    subst hr
    simp only at hu
    cases hx : x.usage with
    | none =>
      simp only [hx] at hu
      cases acc with
      | none => simp at hu
      | some a => exact h a rfl u hu
    | some xu =>
      simp only [hx, Option.some.injEq] at hu
      subst hu
      cases acc with
      | none => simp [imax_nonneg]
      | some a =>
        cases ha : a.usage with
        | none => simp [imax_nonneg]
        | some au =>
          have := h a rfl au ha
          simp [imax_nonneg, this]

theorem stepMeta_none_id (r : Option Meta) (h : NormMeta r) : stepMeta none r = r := by
  cases r with
  | none => rfl
  | some x =>
    obtain ⟨f, u, l⟩ := x
    simp only [stepMeta, Option.some.injEq]
    congr 1
    · split <;> simp_all
    · cases u with
      | none => rfl
      | some uu =>
        have := h _ rfl uu rfl
        obtain ⟨p, c, t⟩ := uu
        simp at this
        simp [imax_zero, this]
    · cases l <;> simp

theorem foldl_stepMeta_norm (acc : Option Meta) (ms : List (Option Meta)) (h : NormMeta acc) :
    NormMeta (ms.foldl stepMeta acc) := by
  induction ms generalizing acc with
  | nil => exact h
  | cons m ms ih => exact ih _ (stepMeta_norm acc m h)

theorem concatMeta_norm (ms : List (Option Meta)) : NormMeta (concatMeta ms) :=
  foldl_stepMeta_norm none ms (by intro m hm; cases hm)

theorem concatMeta_rechunk (xs ys : List (Option Meta)) :
    concatMeta (concatMeta xs :: ys) = concatMeta (xs ++ ys) := by
  have h := stepMeta_none_id _ (concatMeta_norm xs)
  unfold concatMeta at *
  rw [List.foldl_cons, List.foldl_append, h]

/-! ### tool calls -/

def GSorted : List (Int × TC) → Prop
  | [] => True
  | (j, _) :: r => (∀ p ∈ r, j < p.1) ∧ GSorted r

def GInv (gs : List (Int × TC)) : Prop := GSorted gs ∧ ∀ p ∈ gs, p.2.index = some p.1

def SInv (s : TCState) : Prop := (∀ c ∈ s.nils, c.index = none) ∧ GInv s.groups

theorem mergeTC_index (cfg : Cfg) (g c g' : TC) (h : mergeTC cfg g c = .ok g') : g'.index = g.index := by
  unfold mergeTC at h
  cases h1 : pick cfg.tcIdCheck g.id c.id <;> simp [h1, bind, Except.bind] at h
  cases h2 : pick cfg.tcTypeCheck g.type c.type <;> simp [h2] at h
  cases h3 : pick cfg.tcNameCheck g.name c.name <;> simp [h3, pure, Except.pure] at h
  subst h; rfl

theorem insertG_keys (cfg : Cfg) (i : Int) (c : TC) (gs gs' : List (Int × TC))
    (h : insertG cfg i c gs = .ok gs') : ∀ p ∈ gs', p.1 = i ∨ ∃ q ∈ gs, q.1 = p.1 := by
  induction gs generalizing gs' with
  | nil =>
    simp [insertG] at h; subst h; intro p hp; simp at hp; subst hp; simp
  | cons hd rest ih =>
    obtain ⟨j, g⟩ := hd
    unfold insertG at h
    split at h
    · cases h; intro p hp
      simp only [List.mem_cons] at hp
      rcases hp with rfl | rfl | hp
      · simp
      · right; exact ⟨(j, g), by simp, rfl⟩
      · right; exact ⟨p, by simp [hp], rfl⟩
    · split at h
      · cases hm : mergeTC cfg g c <;> simp [hm, bind, Except.bind, pure, Except.pure] at h
        subst h; intro p hp
        simp only [List.mem_cons] at hp
        rcases hp with rfl | hp
        · right; exact ⟨(j, g), by simp, rfl⟩
        · right; exact ⟨p, by simp [hp], rfl⟩
      · cases hr : insertG cfg i c rest <;> simp [hr, bind, Except.bind, pure, Except.pure] at h
        subst h; intro p hp
        simp only [List.mem_cons] at hp
        rcases hp with rfl | hp
        · right; exact ⟨(j, g), by simp, rfl⟩
        · rcases ih _ hr p hp with h1 | ⟨q, hq, he⟩
          · left; exact h1
          · right; exact ⟨q, by simp [hq], he⟩

theorem insertG_inv (cfg : Cfg) (i : Int) (c : TC) (hc : c.index = some i) (gs gs' : List (Int × TC))
    (hi : GInv gs) (h : insertG cfg i c gs = .ok gs') : GInv gs' := by
  induction gs generalizing gs' with
  | nil =>
    simp [insertG] at h; subst h
    exact ⟨by simp [GSorted], by intro p hp; simp at hp; subst hp; exact hc⟩
  | cons hd rest ih =>
    obtain ⟨j, g⟩ := hd
    obtain ⟨⟨hlb, hs⟩, hidx⟩ := hi
    have hrest : GInv rest := ⟨hs, fun p hp => hidx p (by simp [hp])⟩
    unfold insertG at h
    split at h
    · rename_i hlt
      cases h
      refine ⟨⟨?_, hlb, hs⟩, ?_⟩
      · intro p hp
        simp only [List.mem_cons] at hp
        rcases hp with rfl | hp
        · exact hlt
        · have := hlb p hp; omega
      · intro p hp
        simp only [List.mem_cons] at hp
        rcases hp with rfl | hp
        · exact hc
        · exact hidx p (by simpa using hp)
    · split at h
      · rename_i heq
        cases hm : mergeTC cfg g c <;> simp [hm, bind, Except.bind, pure, Except.pure] at h
        rename_i g'
        subst h
        refine ⟨⟨hlb, hs⟩, ?_⟩
        intro p hp
        simp only [List.mem_cons] at hp
        rcases hp with rfl | hp
        · have := mergeTC_index _ _ _ _ hm
          have h0 := hidx (j, g) (by simp)
          simp_all
        · exact hidx p (by simp [hp])
      · rename_i hnlt hne
        cases hr : insertG cfg i c rest <;> simp [hr, bind, Except.bind, pure, Except.pure] at h
        rename_i r'
        subst h
        have ⟨hs', hidx'⟩ := ih r' hrest hr
        refine ⟨⟨?_, hs'⟩, ?_⟩
        · intro p hp
          rcases insertG_keys _ _ _ _ _ hr p hp with h1 | ⟨q, hq, he⟩
          · omega
          · have := hlb q hq; omega
        · intro p hp
          simp only [List.mem_cons] at hp
          rcases hp with rfl | hp
          · exact hidx (j, g) (by simp)
          · exact hidx' p hp

theorem stepTC_inv (cfg : Cfg) (s s' : TCState) (c : TC) (hi : SInv s) (h : stepTC cfg s c = .ok s') :
    SInv s' := by
  unfold stepTC at h
  split at h
  · rename_i hn
    cases h
    refine ⟨?_, hi.2⟩
    intro x hx
    simp only [List.mem_append, List.mem_singleton] at hx
    rcases hx with hx | rfl
    · exact hi.1 x hx
    · exact hn
  · rename_i i hsome
    cases hr : insertG cfg i c s.groups <;> simp [hr, bind, Except.bind, pure, Except.pure] at h
    subst h
    exact ⟨hi.1, insertG_inv cfg i c hsome _ _ hi.2 hr⟩

theorem foldlM_stepTC_inv (cfg : Cfg) (cs : List TC) (s s' : TCState) (hi : SInv s)
    (h : cs.foldlM (stepTC cfg) s = .ok s') : SInv s' := by
  induction cs generalizing s with
  | nil => simp [pure, Except.pure] at h; subst h; exact hi
  | cons c cs ih =>
    simp only [List.foldlM_cons] at h
    cases hs : stepTC cfg s c <;> simp [hs, bind, Except.bind] at h
    exact ih _ (stepTC_inv cfg _ _ _ hi hs) h

theorem insertG_gt (cfg : Cfg) (i : Int) (c : TC) (gs : List (Int × TC)) (h : ∀ p ∈ gs, p.1 < i) :
    insertG cfg i c gs = .ok (gs ++ [(i, c)]) := by
  induction gs with
  | nil => rfl
  | cons hd rest ih =>
    obtain ⟨j, g⟩ := hd
    have hj : j < i := h (j, g) (by simp)
    unfold insertG
    rw [if_neg (by omega), if_neg (by omega), ih (fun p hp => h p (by simp [hp]))]
    rfl

theorem refold_nils (cfg : Cfg) (ns : List TC) (hn : ∀ c ∈ ns, c.index = none) (n0 : List TC) (g0 : List (Int × TC)) :
    ns.foldlM (stepTC cfg) ⟨n0, g0⟩ = .ok ⟨n0 ++ ns, g0⟩ := by
  induction ns generalizing n0 with
  | nil => simp [List.foldlM, pure, Except.pure]
  | cons c ns ih =>
    have hc : c.index = none := hn c (by simp)
    simp only [List.foldlM_cons, stepTC, hc, bind, Except.bind]
    rw [ih (fun x hx => hn x (by simp [hx]))]
    simp

theorem gsorted_append_lt (g0 : List (Int × TC)) (i : Int) (t : TC) (hs : List (Int × TC))
    (h : GSorted (g0 ++ (i, t) :: hs)) : ∀ p ∈ g0, p.1 < i := by
  induction g0 with
  | nil => intro p hp; cases hp
  | cons hd rest ih =>
    obtain ⟨j, g⟩ := hd
    simp only [List.cons_append, GSorted] at h
    intro p hp
    simp only [List.mem_cons] at hp
    rcases hp with rfl | hp
    · exact h.1 (i, t) (by simp)
    · exact ih h.2 p hp

theorem refold_groups (cfg : Cfg) (hs : List (Int × TC)) (n : List TC) (g0 : List (Int × TC))
    (hi : GInv (g0 ++ hs)) :
    (hs.map (·.2)).foldlM (stepTC cfg) ⟨n, g0⟩ = .ok ⟨n, g0 ++ hs⟩ := by
  induction hs generalizing g0 with
  | nil => simp [List.foldlM, pure, Except.pure]
  | cons hd rest ih =>
    obtain ⟨i, t⟩ := hd
    have hidx : t.index = some i := hi.2 (i, t) (by simp)
    have hlt := gsorted_append_lt g0 i t rest hi.1
    simp only [List.map_cons, List.foldlM_cons, stepTC, hidx, bind, Except.bind, insertG_gt cfg i t g0 hlt,
      pure, Except.pure]
    have := ih (g0 ++ [(i, t)]) (by simpa using hi)
    simpa using this

theorem refold_out (cfg : Cfg) (s : TCState) (hi : SInv s) :
    s.out.foldlM (stepTC cfg) ⟨[], []⟩ = .ok s := by
  unfold TCState.out
  rw [List.foldlM_append, refold_nils cfg s.nils hi.1]
  simp only [bind, Except.bind, List.nil_append]
  have := refold_groups cfg s.groups s.nils [] (by simpa using hi.2)
  simpa using this

theorem sinv_init : SInv ⟨[], []⟩ := ⟨by simp, by simp [GSorted], by simp⟩

/-- re-chunking law for tool calls, as an exact equality -/
theorem concatTC_rechunk (cfg : Cfg) (xs ys : List TC) :
    (concatTC cfg xs >>= fun r => concatTC cfg (r ++ ys)) = concatTC cfg (xs ++ ys) := by
  unfold concatTC
  rw [List.foldlM_append]
  cases hx : xs.foldlM (stepTC cfg) ⟨[], []⟩ with
  | error e => rfl
  | ok s =>
    have hi := foldlM_stepTC_inv cfg xs _ _ sinv_init hx
    simp only [bind, Except.bind, pure, Except.pure]
    rw [List.foldlM_append, refold_out cfg s hi]
    rfl

/-! ### keys in first-appearance order, gathered values -/

theorem mem_keysOf (l : List String) (k : String) : k ∈ keysOf l ↔ k ∈ l := by
  induction l with
  | nil => simp [keysOf]
  | cons x xs ih =>
    simp only [keysOf, List.mem_cons, List.mem_filter, ih, bne_iff_ne, ne_eq]
    constructor
    · rintro (h | ⟨h, _⟩)
      · exact Or.inl h
      · exact Or.inr h
    · intro h
      by_cases hk : k = x
      · exact Or.inl hk
      · rcases h with h | h
        · exact Or.inl h
        · exact Or.inr ⟨h, hk⟩

theorem keysOf_nodup (l : List String) : (keysOf l).Nodup := by
  induction l with
  | nil => simp [keysOf]
  | cons x xs ih =>
    simp only [keysOf, List.nodup_cons, List.mem_filter, bne_iff_ne, ne_eq, not_and, Decidable.not_not]
    exact ⟨fun _ => trivial, ih.filter _⟩

theorem filter_ne_of_not_mem (l : List String) (k : String) (h : k ∉ l) :
    l.filter (fun x => x != k) = l := by
  rw [List.filter_eq_self]
  intro a ha
  simp only [bne_iff_ne, ne_eq]
  intro e; subst e; exact h ha

theorem keysOf_of_nodup (l : List String) (h : l.Nodup) : keysOf l = l := by
  induction l with
  | nil => rfl
  | cons x xs ih =>
    rw [List.nodup_cons] at h
    simp only [keysOf, ih h.2, filter_ne_of_not_mem xs x h.1]

theorem keysOf_append (a b : List String) :
    keysOf (a ++ b) = keysOf a ++ (keysOf b).filter (fun k => !a.contains k) := by
  induction a with
  | nil =>
    simp only [List.nil_append, keysOf, List.contains_nil, Bool.not_false]
    exact (List.filter_eq_self.2 (fun _ _ => rfl)).symm
  | cons x xs ih =>
    simp only [List.cons_append, keysOf, ih, List.filter_append, List.filter_filter, List.cons.injEq, true_and]
    congr 1
    apply List.filter_congr
    intro k _
    simp only [List.contains_cons, Bool.not_or, bne]

theorem keysOf_keysOf_append (a b : List String) : keysOf (keysOf a ++ b) = keysOf (a ++ b) := by
  rw [keysOf_append, keysOf_append, keysOf_of_nodup _ (keysOf_nodup a)]
  congr 1
  apply List.filter_congr
  intro k _
  congr 1
  rw [Bool.eq_iff_iff]
  simp [mem_keysOf]

theorem vals_append (a b : KVs) (k : String) : vals (a ++ b) k = vals a k ++ vals b k := by
  simp [vals]

theorem vals_of_not_mem (r : KVs) (k : String) (h : k ∉ r.map (·.1)) : vals r k = [] := by
  simp only [vals, List.map_eq_nil_iff, List.filter_eq_nil_iff, beq_iff_eq]
  intro p hp e
  exact h (by simp only [List.mem_map]; exact ⟨p, hp, e⟩)

theorem vals_ne_nil (r : KVs) (k : String) (h : k ∈ r.map (·.1)) : vals r k ≠ [] := by
  simp only [List.mem_map] at h
  obtain ⟨p, hp, e⟩ := h
  intro hnil
  simp only [vals, List.map_eq_nil_iff, List.filter_eq_nil_iff] at hnil
  exact hnil p hp (by simp [e])

theorem vals_of_nodup (r : KVs) (h : (r.map (·.1)).Nodup) (k : String) (v : XVal) (hm : (k, v) ∈ r) :
    vals r k = [v] := by
  induction r with
  | nil => cases hm
  | cons hd tl ih =>
    simp only [List.map_cons, List.nodup_cons] at h
    simp only [List.mem_cons] at hm
    rcases hm with rfl | hm
    · have : vals tl k = [] := vals_of_not_mem tl k h.1
      simp only [vals] at this ⊢
      simp [this]
    · have hne : hd.1 ≠ k := by
        intro e; apply h.1; simp only [List.mem_map]; exact ⟨(k, v), hm, e.symm⟩
      have := ih h.2 hm
      simp only [vals] at this ⊢
      simp [hne, this]

/-! ### per-key map construction -/

def buildM (f : String → Except Err XVal) (ks : List String) : Except Err KVs :=
  ks.mapM (fun k => do let v ← f k; pure (k, v))

theorem buildM_nil (f : String → Except Err XVal) : buildM f [] = .ok [] := rfl

theorem buildM_cons (f : String → Except Err XVal) (k : String) (ks : List String) :
    buildM f (k :: ks) = (do let v ← f k; let r ← buildM f ks; pure ((k, v) :: r)) := by
  simp [buildM, List.mapM_cons]

theorem buildM_ok (f : String → Except Err XVal) (ks : List String) (r : KVs) (h : buildM f ks = .ok r) :
    r.map (·.1) = ks ∧ ∀ p ∈ r, f p.1 = .ok p.2 := by
  induction ks generalizing r with
  | nil => simp [buildM_nil] at h; subst h; simp
  | cons k ks ih =>
    rw [buildM_cons] at h
    cases hf : f k <;> simp [hf, bind, Except.bind] at h
    cases hb : buildM f ks <;> simp [hb, pure, Except.pure] at h
    subst h
    have ⟨h1, h2⟩ := ih _ hb
    refine ⟨by simp [h1], ?_⟩
    intro p hp
    simp only [List.mem_cons] at hp
    rcases hp with rfl | hp
    · exact hf
    · exact h2 p hp

theorem buildM_error (f : String → Except Err XVal) (ks : List String) (e : Err) (h : buildM f ks = .error e) :
    ∃ k ∈ ks, f k = .error e := by
  induction ks with
  | nil => simp [buildM_nil] at h
  | cons k ks ih =>
    rw [buildM_cons] at h
    cases hf : f k with
    | error e' => simp [hf, bind, Except.bind] at h; subst h; exact ⟨k, by simp, hf⟩
    | ok v =>
      simp [hf, bind, Except.bind] at h
      cases hb : buildM f ks with
      | error e' =>
        simp [hb] at h; subst h
        obtain ⟨k', hk', he⟩ := ih hb
        exact ⟨k', by simp [hk'], he⟩
      | ok r => simp [hb, pure, Except.pure] at h

theorem buildM_error_of (f : String → Except Err XVal) (ks : List String) (k : String) (hk : k ∈ ks) (e : Err)
    (h : f k = .error e) : ∃ e', buildM f ks = .error e' := by
  induction ks with
  | nil => cases hk
  | cons k0 ks ih =>
    rw [buildM_cons]
    cases hf : f k0 with
    | error e' => exact ⟨e', rfl⟩
    | ok v =>
      simp only [List.mem_cons] at hk
      rcases hk with rfl | hk
      · rw [hf] at h; cases h
      · obtain ⟨e', he⟩ := ih hk
        exact ⟨e', by simp [bind, Except.bind, he]⟩

theorem buildM_congr (f f' : String → Except Err XVal) (ks : List String)
    (h : ∀ k ∈ ks, EqvE (f k) (f' k)) : EqvE (buildM f ks) (buildM f' ks) := by
  induction ks with
  | nil => simp [buildM_nil, EqvE]
  | cons k ks ih =>
    rw [buildM_cons, buildM_cons]
    have hk := h k (by simp)
    have ih' := ih (fun k' hk' => h k' (by simp [hk']))
    cases hf : f k <;> cases hf' : f' k <;> simp [hf, hf', EqvE] at hk
    · simp [bind, Except.bind, EqvE]
    · subst hk
      cases hb : buildM f ks <;> cases hb' : buildM f' ks <;> simp [hb, hb', EqvE] at ih'
      · simp [bind, Except.bind, EqvE]
      · subst ih'; simp [bind, Except.bind, pure, Except.pure, EqvE]


/-! ### concatSliceValue rules -/

theorem EqvE.error_left {α} {e : Err} {b : Except Err α} (h : EqvE (.error e) b) : ∃ e', b = .error e' := by
  cases b with
  | error e' => exact ⟨e', rfl⟩
  | ok v => simp [EqvE] at h

theorem combineSc_sc (r : Rule) (ty : String) (l : List String) (x : XVal) (h : combineSc r ty l = .ok x) :
    ∃ u, x = .sc ty u := by
  unfold combineSc at h
  cases r <;> simp only at h
  · cases h; exact ⟨_, rfl⟩
  · split at h <;> cases h; exact ⟨_, rfl⟩
  · split at h <;> cases h <;> exact ⟨_, rfl⟩

theorem combineSc_rechunk (r : Rule) (ty : String) (l qs : List String) (u : String) (hl : l ≠ [])
    (h : combineSc r ty l = .ok (.sc ty u)) : combineSc r ty (u :: qs) = combineSc r ty (l ++ qs) := by
  unfold combineSc at h ⊢
  cases r <;> simp only at h ⊢
  · simp only [Except.ok.injEq, XVal.sc.injEq, true_and] at h
    subst h; rw [joinS_rechunk]
  · split at h <;> simp only [Except.ok.injEq, XVal.sc.injEq, true_and, reduceCtorEq] at h
    subst h
    rename_i v hv
    cases qs with
    | nil => simp [hv]
    | cons q qs' =>
      rw [List.getLast?_cons_cons, List.getLast?_append]
      cases hg : (q :: qs').getLast? with
      | none => simp at hg
      | some z => simp
  · split at h <;> simp only [Except.ok.injEq, XVal.sc.injEq, true_and, reduceCtorEq] at h
    · rename_i hf; subst h
      simp [List.filter_append, hf, List.filter_cons]
    · rename_i v hf; subst h
      have hv : (v != "") = true := by
        have : v ∈ l.filter (fun v => v != "") := by rw [hf]; simp
        exact (List.mem_filter.1 this).2
      simp [List.filter_append, hf, List.filter_cons, hv]

theorem combineSc_mono (r : Rule) (ty : String) (l qs : List String) (e : Err) (hl : l ≠ [])
    (h : combineSc r ty l = .error e) : ∃ e', combineSc r ty (l ++ qs) = .error e' := by
  unfold combineSc at h ⊢
  cases r <;> simp only at h ⊢
  · cases h
  · split at h
    · rename_i hn
      simp [List.getLast?_eq_none_iff] at hn
      exact absurd hn hl
    · cases h
  · split at h
    · cases h
    · cases h
    · rename_i a b t hf
      simp [List.filter_append, hf]

/-! ### one key -/

theorem mapM_append_except {α β} (f : α → Except Err β) (l l' : List α) :
    (l ++ l').mapM f = (do let a ← l.mapM f; let b ← l'.mapM f; pure (a ++ b)) := by
  simp [List.mapM_append]

theorem perKeyW_nonnil (cfg : Cfg) (rec : String → List KVs → Except Err KVs) (ws : List XVal) (hws : ws ≠ [])
    (r : XVal) (h : perKeyW cfg rec ws = .ok r) : r.isNil = false := by
  cases ws with
  | nil => exact absurd rfl hws
  | cons w rest =>
    cases w with
    | nil => simp [perKeyW] at h
    | sc ty v =>
      simp only [perKeyW] at h
      cases hp : rest.mapM (asSc ty) <;> simp [hp, bind, Except.bind] at h
      obtain ⟨u, hu⟩ := combineSc_sc _ _ _ _ h
      subst hu; rfl
    | map et kvs =>
      simp only [perKeyW] at h
      cases hp : rest.mapM (asMap et) <;> simp [hp, bind, Except.bind] at h
      rename_i ms
      cases hr : rec et (kvs :: ms) <;> simp [hr, pure, Except.pure] at h
      subst h; rfl

theorem perKeyW_rechunk (cfg : Cfg) (rec : String → List KVs → Except Err KVs)
    (hrec : ∀ et ms ms', ms ≠ [] → EqvE (rec et ms >>= fun r => rec et (r :: ms')) (rec et (ms ++ ms')))
    (wa wb : List XVal) (hwa : wa ≠ []) :
    EqvE (perKeyW cfg rec wa >>= fun r => perKeyW cfg rec (r :: wb)) (perKeyW cfg rec (wa ++ wb)) := by
  cases wa with
  | nil => exact absurd rfl hwa
  | cons w rest =>
    cases w with
    | nil => simp [perKeyW, bind, Except.bind, EqvE]
    | sc ty v =>
      simp only [List.cons_append, perKeyW, mapM_append_except]
      cases hp : rest.mapM (asSc ty) with
      | error e => simp [bind, Except.bind, EqvE]
      | ok ps =>
        simp only [bind, Except.bind]
        cases hc : combineSc (cfg.rule ty) ty (v :: ps) with
        | error e =>
          simp only
          cases hq : wb.mapM (asSc ty) with
          | error e' => simp [EqvE]
          | ok qs =>
            obtain ⟨e', he⟩ := combineSc_mono _ _ (v :: ps) qs e (by simp) hc
            simp only [pure, Except.pure, ← List.cons_append, he, EqvE]
        | ok x =>
          obtain ⟨u, hu⟩ := combineSc_sc _ _ _ _ hc
          subst hu
          simp only [perKeyW, bind, Except.bind]
          cases hq : wb.mapM (asSc ty) with
          | error e' => simp [EqvE]
          | ok qs =>
            simp only [pure, Except.pure]
            rw [combineSc_rechunk _ _ (v :: ps) qs u (by simp) hc]
            exact EqvE.rfl' _
    | map et kvs =>
      simp only [List.cons_append, perKeyW, mapM_append_except]
      cases hp : rest.mapM (asMap et) with
      | error e => simp [bind, Except.bind, EqvE]
      | ok ms =>
        simp only [bind, Except.bind]
        have hr := hrec et (kvs :: ms)
        cases hc : rec et (kvs :: ms) with
        | error e =>
          simp only
          cases hq : wb.mapM (asMap et) with
          | error e' => simp [EqvE]
          | ok ms' =>
            have := hr ms' (by simp)
            rw [hc] at this
            obtain ⟨e', he⟩ := EqvE.error_left this
            simp only [pure, Except.pure, ← List.cons_append, he, EqvE]
        | ok r =>
          simp only [pure, Except.pure, perKeyW, bind, Except.bind]
          cases hq : wb.mapM (asMap et) with
          | error e' => simp [EqvE]
          | ok ms' =>
            have := hr ms' (by simp)
            rw [hc] at this
            simp only [bind, Except.bind, List.cons_append] at this
            simp only
            cases h1 : rec et (r :: ms') <;> cases h2 : rec et (kvs :: (ms ++ ms')) <;>
              simp [h1, h2, EqvE] at this ⊢
            exact this

theorem dropNil_append (cfg : Cfg) (a b : List XVal) : dropNil cfg (a ++ b) = dropNil cfg a ++ dropNil cfg b := by
  unfold dropNil; split <;> simp

theorem dropNil_cons_nonnil (cfg : Cfg) (r : XVal) (b : List XVal) (h : r.isNil = false) :
    dropNil cfg (r :: b) = r :: dropNil cfg b := by
  unfold dropNil; split <;> simp [h]

theorem dropNil_cons_nil (cfg : Cfg) (b : List XVal) (h : cfg.nilAbsent = true) :
    dropNil cfg (.nil :: b) = dropNil cfg b := by
  unfold dropNil; simp [h, XVal.isNil]

theorem perKey_rechunk (cfg : Cfg) (rec : String → List KVs → Except Err KVs)
    (hrec : ∀ et ms ms', ms ≠ [] → EqvE (rec et ms >>= fun r => rec et (r :: ms')) (rec et (ms ++ ms')))
    (va vb : List XVal) (hva : va ≠ []) :
    EqvE (perKey cfg rec va >>= fun r => perKey cfg rec (r :: vb)) (perKey cfg rec (va ++ vb)) := by
  unfold perKey
  rw [dropNil_append]
  by_cases hw : dropNil cfg va = []
  · have hg : cfg.nilAbsent = true := by
      cases hb : cfg.nilAbsent with
      | true => rfl
      | false => simp [dropNil, hb] at hw; exact absurd hw hva
    simp only [hw, perKeyW, bind, Except.bind, List.nil_append, dropNil_cons_nil cfg vb hg]
    exact EqvE.rfl' _
  · have key := perKeyW_rechunk cfg rec hrec (dropNil cfg va) (dropNil cfg vb) hw
    cases hx : perKeyW cfg rec (dropNil cfg va) with
    | error e => rw [hx] at key; simpa [bind, Except.bind] using key
    | ok r =>
      rw [hx] at key
      have hn := perKeyW_nonnil cfg rec _ hw r hx
      simp only [bind, Except.bind] at key ⊢
      rw [dropNil_cons_nonnil cfg r vb hn]
      exact key


/-! ### whole maps -/

theorem build_rechunk (h : List XVal → Except Err XVal)
    (PK : ∀ va vb, va ≠ [] → EqvE (h va >>= fun r => h (r :: vb)) (h (va ++ vb))) (A B : KVs) :
    EqvE (buildM (fun k => h (vals A k)) (keysOf (A.map (·.1))) >>= fun r =>
            buildM (fun k => h (vals (r ++ B) k)) (keysOf ((r ++ B).map (·.1))))
         (buildM (fun k => h (vals (A ++ B) k)) (keysOf ((A ++ B).map (·.1)))) := by
  cases hA : buildM (fun k => h (vals A k)) (keysOf (A.map (·.1))) with
  | error e =>
    obtain ⟨k, hk, he⟩ := buildM_error _ _ _ hA
    have hkA : k ∈ A.map (·.1) := (mem_keysOf _ _).1 hk
    have hpk := PK (vals A k) (vals B k) (vals_ne_nil A k hkA)
    rw [he] at hpk
    obtain ⟨e'', he''⟩ := EqvE.error_left hpk
    have hk' : k ∈ keysOf ((A ++ B).map (·.1)) := by
      rw [mem_keysOf]; simp only [List.map_append, List.mem_append]; exact Or.inl hkA
    obtain ⟨e3, he3⟩ := buildM_error_of (fun k => h (vals (A ++ B) k)) _ k hk' e'' (by simpa [vals_append] using he'')
    rw [he3]; simp [bind, Except.bind, EqvE]
  | ok r =>
    obtain ⟨hkeys, hvals⟩ := buildM_ok _ _ _ hA
    simp only [bind, Except.bind]
    have hnd : (r.map (·.1)).Nodup := by rw [hkeys]; exact keysOf_nodup _
    have hK : keysOf ((r ++ B).map (·.1)) = keysOf ((A ++ B).map (·.1)) := by
      simp only [List.map_append, hkeys, keysOf_keysOf_append]
    rw [hK]
    apply buildM_congr
    intro k _
    simp only [vals_append]
    by_cases hkA : k ∈ A.map (·.1)
    · have hkr : k ∈ r.map (·.1) := by rw [hkeys, mem_keysOf]; exact hkA
      simp only [List.mem_map] at hkr
      obtain ⟨p, hp, hpk⟩ := hkr
      obtain ⟨k', v⟩ := p
      simp only at hpk; subst hpk
      rw [vals_of_nodup r hnd _ v hp]
      have hv := hvals _ hp
      simp only at hv
      have hpk := PK (vals A k') (vals B k') (vals_ne_nil A k' hkA)
      rw [hv] at hpk
      simpa [bind, Except.bind] using hpk
    · have hkr : k ∉ r.map (·.1) := by rw [hkeys, mem_keysOf]; exact hkA
      rw [vals_of_not_mem r k hkr, vals_of_not_mem A k hkA]
      exact EqvE.rfl' _

theorem guardPanics_std (cfg : Cfg) (hs : cfg.Std) (et : String) : guardPanics cfg et = false := by
  simp [guardPanics, hs.1]

/-- with both `concatMaps` facts at their standard value the typed-map model is the plain
    per-key construction (no `IsNil` panic, every map type recurses) -/
theorem concatEvs_succ (cfg : Cfg) (hs : cfg.Std) (n : Nat) (et : String) (evs : KVs) :
    concatEvs cfg (n + 1) et evs =
      buildM (fun k => perKey cfg (fun et' ms => concatEvs cfg n et' ms.flatten) (vals evs k)) (keysOf (evs.map (·.1))) := by
  simp only [concatEvs, guardPanics_std cfg hs, Bool.false_and, perKeyF, hs.2, if_true, buildM]
  rfl

/-- re-chunking law for maps of any element type (on the flattened occurrences) -/
theorem concatEvs_rechunk (cfg : Cfg) (hs : cfg.Std) (n : Nat) : ∀ (et : String) (A B : KVs),
    EqvE (concatEvs cfg n et A >>= fun r => concatEvs cfg n et (r ++ B)) (concatEvs cfg n et (A ++ B)) := by
  induction n with
  | zero => intro et A B; simp [concatEvs, bind, Except.bind, EqvE]
  | succ n ih =>
    intro et A B
    simp only [concatEvs_succ cfg hs]
    apply build_rechunk (perKey cfg (fun et' ms => concatEvs cfg n et' ms.flatten))
    intro va vb hva
    apply perKey_rechunk _ _ _ va vb hva
    intro et' ms ms' _
    simpa using ih et' ms.flatten ms'.flatten

theorem concatMaps_rechunk (cfg : Cfg) (hs : cfg.Std) (n : Nat) (et : String) (xs ys : List KVs) :
    EqvE (concatMaps cfg n et xs >>= fun r => concatMaps cfg n et (r :: ys)) (concatMaps cfg n et (xs ++ ys)) := by
  simpa [concatMaps] using concatEvs_rechunk cfg hs n et xs.flatten ys.flatten

/-! ### no panic with the nil guard; fuel adequacy -/

theorem mapM_mem_ok {α β} (f : α → Except Err β) (l : List α) (r : List β) (h : l.mapM f = .ok r) :
    ∀ y ∈ r, ∃ x ∈ l, f x = .ok y := by
  induction l generalizing r with
  | nil => simp [pure, Except.pure] at h; subst h; intro y hy; cases hy
  | cons a l ih =>
    rw [List.mapM_cons] at h
    cases ha : f a <;> simp [ha, bind, Except.bind] at h
    cases hl : l.mapM f <;> simp [hl, pure, Except.pure] at h
    subst h
    intro y hy
    simp only [List.mem_cons] at hy
    rcases hy with rfl | hy
    · exact ⟨a, by simp, ha⟩
    · obtain ⟨x, hx, hfx⟩ := ih _ hl y hy
      exact ⟨x, by simp [hx], hfx⟩

theorem mapM_error_mem {α β} (f : α → Except Err β) (l : List α) (e : Err) (h : l.mapM f = .error e) :
    ∃ x ∈ l, f x = .error e := by
  induction l with
  | nil => simp [pure, Except.pure] at h
  | cons a l ih =>
    rw [List.mapM_cons] at h
    cases ha : f a with
    | error e' => simp [ha, bind, Except.bind] at h; subst h; exact ⟨a, by simp, ha⟩
    | ok v =>
      simp [ha, bind, Except.bind] at h
      cases hl : l.mapM f with
      | error e' =>
        simp [hl] at h; subst h
        obtain ⟨x, hx, hfx⟩ := ih hl
        exact ⟨x, by simp [hx], hfx⟩
      | ok r => simp [hl, pure, Except.pure] at h

theorem asSc_fail (ty : String) (x : XVal) (e : Err) (h : asSc ty x = .error e) : e = .fail := by
  unfold asSc at h; split at h
  · split at h <;> cases h; rfl
  · cases h; rfl

theorem asMap_fail (et : String) (x : XVal) (e : Err) (h : asMap et x = .error e) : e = .fail := by
  unfold asMap at h; split at h
  · split at h <;> cases h; rfl
  · cases h; rfl

theorem asMap_ok (et : String) (x : XVal) (m : KVs) (h : asMap et x = .ok m) : x = .map et m := by
  unfold asMap at h; split at h
  · split at h
    · rename_i he; cases h; rw [he]
    · cases h
  · cases h

theorem combineSc_err (r : Rule) (ty : String) (v : String) (ps : List String) (e : Err)
    (h : combineSc r ty (v :: ps) = .error e) : e = .fail := by
  unfold combineSc at h
  cases r <;> simp only at h
  · cases h
  · split at h
    · rename_i hn; simp [List.getLast?_eq_none_iff] at hn
    · cases h
  · split at h <;> cases h; rfl

/-- errors of one key: either an ordinary failure, or the nil-type panic (only without the
    guard), or whatever the nested concatenation reports -/
theorem perKey_err (cfg : Cfg) (rec : String → List KVs → Except Err KVs) (vs : List XVal) (e : Err)
    (h : perKey cfg rec vs = .error e) :
    e = .fail ∨ (e = .panic ∧ cfg.nilAbsent = false) ∨
      ∃ et ms, ms ≠ [] ∧ (∀ m ∈ ms, .map et m ∈ vs) ∧ rec et ms = .error e := by
  unfold perKey at h
  have hsub : ∀ x ∈ dropNil cfg vs, x ∈ vs ∧ (cfg.nilAbsent = true → x.isNil = false) := by
    intro x hx; unfold dropNil at hx
    split at hx
    · rename_i hg; simp only [List.mem_filter, Bool.not_eq_eq_eq_not, Bool.not_true] at hx
      exact ⟨hx.1, fun _ => hx.2⟩
    · rename_i hg; exact ⟨hx, fun hh => absurd hh hg⟩
  cases hd : dropNil cfg vs with
  | nil => simp [hd, perKeyW] at h
  | cons w rest =>
    rw [hd] at h hsub
    cases w with
    | nil =>
      simp only [perKeyW] at h; cases h
      right; left; refine ⟨rfl, ?_⟩
      cases hg : cfg.nilAbsent with
      | false => rfl
      | true => have := (hsub .nil (by simp)).2 hg; simp [XVal.isNil] at this
    | sc ty v =>
      simp only [perKeyW] at h
      cases hp : rest.mapM (asSc ty) with
      | error e' =>
        simp [hp, bind, Except.bind] at h; subst h
        obtain ⟨x, _, hx⟩ := mapM_error_mem _ _ _ hp
        exact Or.inl (asSc_fail _ _ _ hx)
      | ok ps =>
        simp [hp, bind, Except.bind] at h
        exact Or.inl (combineSc_err _ _ _ _ _ h)
    | map et kvs =>
      simp only [perKeyW] at h
      cases hp : rest.mapM (asMap et) with
      | error e' =>
        simp [hp, bind, Except.bind] at h; subst h
        obtain ⟨x, _, hx⟩ := mapM_error_mem _ _ _ hp
        exact Or.inl (asMap_fail _ _ _ hx)
      | ok ms =>
        simp [hp, bind, Except.bind] at h
        cases hr : rec et (kvs :: ms) with
        | ok r => simp [hr, pure, Except.pure] at h
        | error e' =>
          simp [hr] at h; subst h
          right; right
          refine ⟨et, kvs :: ms, by simp, ?_, hr⟩
          intro m hm
          simp only [List.mem_cons] at hm
          rcases hm with rfl | hm
          · exact (hsub _ (by simp)).1
          · obtain ⟨x, hx, hfx⟩ := mapM_mem_ok _ _ _ hp m hm
            have : x = .map et m := asMap_ok _ _ _ hfx
            subst this
            exact (hsub _ (by simp [hx])).1

theorem concatEvs_no_panic (cfg : Cfg) (hs : cfg.Std) (hg : cfg.nilAbsent = true) (n : Nat) :
    ∀ (et : String) (evs : KVs), concatEvs cfg n et evs ≠ .error .panic := by
  induction n with
  | zero => intro et evs; simp [concatEvs]
  | succ n ih =>
    intro et evs h
    rw [concatEvs_succ cfg hs] at h
    obtain ⟨k, _, he⟩ := buildM_error _ _ _ h
    rcases perKey_err _ _ _ _ he with h1 | ⟨_, h2⟩ | ⟨et', ms, _, _, h3⟩
    · cases h1
    · rw [hg] at h2; cases h2
    · exact ih _ _ h3

theorem depth_map (et : String) (m : KVs) : (XVal.map et m).depth = 1 + depthKVs m := by
  simp [XVal.depth, depthKVs]

theorem depthKVs_cons (k : String) (v : XVal) (r : KVs) : depthKVs ((k, v) :: r) = max v.depth (depthKVs r) := by
  simp [depthKVs, XVal.depth.go]

theorem depth_mem (evs : KVs) (k : String) (v : XVal) (h : (k, v) ∈ evs) : v.depth ≤ depthKVs evs := by
  induction evs with
  | nil => cases h
  | cons hd tl ih =>
    obtain ⟨k', v'⟩ := hd
    rw [depthKVs_cons]
    simp only [List.mem_cons, Prod.mk.injEq] at h
    rcases h with ⟨_, rfl⟩ | h
    · omega
    · have := ih h; omega

theorem depthKVs_append (a b : KVs) : depthKVs (a ++ b) = max (depthKVs a) (depthKVs b) := by
  induction a with
  | nil => simp [depthKVs, XVal.depth.go]
  | cons hd tl ih =>
    obtain ⟨k, v⟩ := hd
    simp only [List.cons_append, depthKVs_cons, ih]; omega

theorem depthKVs_flatten (ms : List KVs) (d : Nat) (h : ∀ m ∈ ms, depthKVs m ≤ d) : depthKVs ms.flatten ≤ d := by
  induction ms with
  | nil => simp [depthKVs, XVal.depth.go]
  | cons m ms ih =>
    simp only [List.flatten_cons, depthKVs_append]
    have h1 := h m (by simp)
    have h2 := ih (fun m' hm' => h m' (by simp [hm']))
    omega

theorem mem_vals (evs : KVs) (k : String) (v : XVal) (h : v ∈ vals evs k) : (k, v) ∈ evs := by
  simp only [vals, List.mem_map, List.mem_filter, beq_iff_eq] at h
  obtain ⟨p, ⟨hp, hk⟩, hv⟩ := h
  obtain ⟨k', v'⟩ := p
  simp only at hk hv; subst hk; subst hv; exact hp

/-- with more fuel than the nesting depth the fuel error is unreachable -/
theorem concatEvs_fuel_ok (cfg : Cfg) (hs : cfg.Std) (n : Nat) : ∀ (et : String) (evs : KVs), depthKVs evs < n →
    concatEvs cfg n et evs ≠ .error .fuel := by
  induction n with
  | zero => intro et evs hd; omega
  | succ n ih =>
    intro et evs hd h
    rw [concatEvs_succ cfg hs] at h
    obtain ⟨k, _, he⟩ := buildM_error _ _ _ h
    rcases perKey_err _ _ _ _ he with h1 | ⟨h2, _⟩ | ⟨et', ms, hne, hms, h3⟩
    · cases h1
    · cases h2
    · refine ih et' ms.flatten ?_ h3
      have : ∀ m ∈ ms, depthKVs m ≤ n - 1 := by
        intro m hm
        have h1 := depth_mem evs k _ (mem_vals evs k _ (hms m hm))
        rw [depth_map] at h1
        omega
      have := depthKVs_flatten ms (n - 1) this
      have hpos : 0 < n := by
        cases ms with
        | nil => exact absurd rfl hne
        | cons m _ =>
          have h1 := depth_mem evs k _ (mem_vals evs k _ (hms m (by simp)))
          rw [depth_map] at h1; omega
      omega

/-! ### messages -/

def assemble (R N I : Except Err String) (T : Except Err (List TC)) (E : Except Err KVs)
    (content : String) (multi : List Nat) (rm : Option Meta) : Except Err Msg := do
  let role ← R
  let name ← N
  let tcid ← I
  let tcs ← T
  let extra ← E
  pure { role := role, name := name, toolCallID := tcid, content := content, multi := multi,
         toolCalls := tcs, rmeta := rm, extra := extra }

def IsErr {α} (x : Except Err α) : Prop := ∃ e, x = .error e

theorem assemble_eqv (R N I T) (E E' : Except Err KVs) (c m rm) (h : EqvE E E') :
    EqvE (assemble R N I T E c m rm) (assemble R N I T E' c m rm) := by
  unfold assemble
  cases R <;> cases N <;> cases I <;> cases T <;> cases E <;> cases E' <;>
    simp_all [EqvE, bind, Except.bind, pure, Except.pure]

theorem assemble_ok (R N I T E c m rm) (r : Msg) (h : assemble R N I T E c m rm = .ok r) :
    ∃ a b i d e, R = .ok a ∧ N = .ok b ∧ I = .ok i ∧ T = .ok d ∧ E = .ok e ∧
      r = { role := a, name := b, toolCallID := i, content := c, multi := m, toolCalls := d, rmeta := rm, extra := e } := by
  unfold assemble at h
  cases R <;> cases N <;> cases I <;> cases T <;> cases E <;>
    simp_all [bind, Except.bind, pure, Except.pure]

theorem assemble_err_inv (R N I T E c m rm) (x : Err) (h : assemble R N I T E c m rm = .error x) :
    IsErr R ∨ IsErr N ∨ IsErr I ∨ IsErr T ∨ IsErr E := by
  unfold assemble at h
  cases R <;> cases N <;> cases I <;> cases T <;> cases E <;>
    simp_all [bind, Except.bind, pure, Except.pure, IsErr]

theorem assemble_err (R N I T E c m rm) (h : IsErr R ∨ IsErr N ∨ IsErr I ∨ IsErr T ∨ IsErr E) :
    IsErr (assemble R N I T E c m rm) := by
  unfold assemble
  cases R <;> cases N <;> cases I <;> cases T <;> cases E <;>
    simp_all [bind, Except.bind, pure, Except.pure, IsErr]

theorem flatten_filter_nonempty (l : List KVs) : (l.filter (fun e => !e.isEmpty)).flatten = l.flatten := by
  induction l with
  | nil => rfl
  | cons a l ih =>
    cases a with
    | nil => simp [List.filter_cons, ih]
    | cons p q => simp [List.filter_cons, ih]

theorem concatMsgs_eq (cfg : Cfg) (n : Nat) (ms : List Msg) :
    concatMsgs cfg n ms =
      assemble (firstNE cfg.roleCheck "" (ms.map (·.role))) (firstNE cfg.nameCheck "" (ms.map (·.name)))
        (firstNE cfg.tcidCheck "" (ms.map (·.toolCallID))) (concatTC cfg (ms.flatMap (·.toolCalls)))
        (concatEvs cfg n "any" (ms.map (·.extra)).flatten)
        (joinS (ms.map (·.content))) (lastNEl [] (ms.map (·.multi))) (concatMeta (ms.map (·.rmeta))) := by
  unfold concatMsgs assemble concatMaps
  rw [flatten_filter_nonempty]

theorem firstNE_err_append (c : Bool) (xs ys : List String) (h : IsErr (firstNE c "" xs)) :
    IsErr (firstNE c "" (xs ++ ys)) := by
  obtain ⟨e, he⟩ := h
  rw [firstNE_append, he]; exact ⟨e, rfl⟩

theorem firstNE_ok_append (c : Bool) (xs ys : List String) (a : String) (h : firstNE c "" xs = .ok a) :
    firstNE c "" (a :: ys) = firstNE c "" (xs ++ ys) := by
  rw [firstNE_append, h, firstNE_cons_empty]; rfl

/-- re-chunking law for `ConcatMessages` -/
theorem concatMsgs_rechunk (cfg : Cfg) (hs : cfg.Std) (n : Nat) (xs ys : List Msg) :
    EqvE (concatMsgs cfg n xs >>= fun r => concatMsgs cfg n (r :: ys)) (concatMsgs cfg n (xs ++ ys)) := by
  have hT := concatTC_rechunk cfg (xs.flatMap (·.toolCalls)) (ys.flatMap (·.toolCalls))
  have hE := concatEvs_rechunk cfg hs n "any" (xs.map (·.extra)).flatten (ys.map (·.extra)).flatten
  cases hx : concatMsgs cfg n xs with
  | error x =>
    rw [concatMsgs_eq] at hx
    have herr : IsErr (concatMsgs cfg n (xs ++ ys)) := by
      rw [concatMsgs_eq]
      apply assemble_err
      simp only [List.map_append, List.flatMap_append, List.flatten_append]
      rcases assemble_err_inv _ _ _ _ _ _ _ _ _ hx with h | h | h | h | h
      · exact Or.inl (firstNE_err_append _ _ _ h)
      · exact Or.inr (Or.inl (firstNE_err_append _ _ _ h))
      · exact Or.inr (Or.inr (Or.inl (firstNE_err_append _ _ _ h)))
      · obtain ⟨e, he⟩ := h
        rw [he] at hT
        exact Or.inr (Or.inr (Or.inr (Or.inl ⟨e, hT.symm⟩)))
      · obtain ⟨e, he⟩ := h
        rw [he] at hE
        obtain ⟨e', he'⟩ := EqvE.error_left hE
        exact Or.inr (Or.inr (Or.inr (Or.inr ⟨e', he'⟩)))
    obtain ⟨e, he⟩ := herr
    simp [bind, Except.bind, he, EqvE]
  | ok r =>
    rw [concatMsgs_eq] at hx
    obtain ⟨a, b, i, d, e, hR, hN, hI, hTx, hEx, hr⟩ := assemble_ok _ _ _ _ _ _ _ _ _ hx
    simp only [bind, Except.bind]
    rw [concatMsgs_eq, concatMsgs_eq]
    subst hr
    simp only [List.map_cons, List.map_append, List.flatMap_cons, List.flatMap_append, List.flatten_cons,
      List.flatten_append]
    rw [firstNE_ok_append _ _ _ _ hR, firstNE_ok_append _ _ _ _ hN, firstNE_ok_append _ _ _ _ hI,
      joinS_rechunk, lastNEl_rechunk, concatMeta_rechunk]
    rw [hTx] at hT
    simp only [bind, Except.bind] at hT
    rw [hT]
    rw [hEx] at hE
    simp only [bind, Except.bind] at hE
    exact assemble_eqv _ _ _ _ _ _ _ _ _ hE

theorem allSome_append {α} (a b : List (Option α)) :
    allSome (a ++ b) = (match allSome a, allSome b with
      | some x, some y => some (x ++ y)
      | _, _ => none) := by
  induction a with
  | nil => simp [allSome]; cases allSome b <;> rfl
  | cons h t ih =>
    cases h with
    | none => simp [allSome]
    | some x =>
      simp only [List.cons_append, allSome, ih]
      cases allSome t <;> cases allSome b <;> rfl

/-- the same for `[]*Message` (a nil chunk is an error) -/
theorem concatMsgPtrs_rechunk (cfg : Cfg) (hs : cfg.Std) (n : Nat) (xs ys : List (Option Msg)) :
    EqvE (concatMsgPtrs cfg n xs >>= fun r => concatMsgPtrs cfg n (some r :: ys)) (concatMsgPtrs cfg n (xs ++ ys)) := by
  unfold concatMsgPtrs
  rw [allSome_append]
  cases hx : allSome xs with
  | none => simp [bind, Except.bind, EqvE]
  | some ms =>
    cases hy : allSome ys with
    | none =>
      simp only [allSome, hy]
      cases concatMsgs cfg n ms <;> simp [bind, Except.bind, EqvE]
    | some ms' =>
      simp only [allSome, hy]
      exact concatMsgs_rechunk cfg hs n ms ms'

/-! ### compose-level stream concatenation -/

theorem concatStream_rechunk {α} (core : List α → Except Err α)
    (hcore : ∀ xs ys, xs ≠ [] → EqvE (core xs >>= fun r => core (r :: ys)) (core (xs ++ ys)))
    (xs ys : List α) (hxs : xs ≠ []) :
    EqvE (concatStream core xs >>= fun r => concatStream core (r :: ys)) (concatStream core (xs ++ ys)) := by
  cases xs with
  | nil => exact absurd rfl hxs
  | cons x t =>
    cases t with
    | nil => simp only [concatStream, bind, Except.bind, List.cons_append, List.nil_append]; exact EqvE.rfl' _
    | cons x' t' =>
      cases ys with
      | nil =>
        simp only [concatStream, List.append_nil]
        cases core (x :: x' :: t') <;> simp [bind, Except.bind, EqvE, concatStream]
      | cons y t'' =>
        have := hcore (x :: x' :: t') (y :: t'') (by simp)
        simp only [concatStream, List.cons_append] at this ⊢
        cases hc : core (x :: x' :: t') with
        | error e => rw [hc] at this; simpa [bind, Except.bind] using this
        | ok r => rw [hc] at this; simpa [bind, Except.bind, concatStream] using this

def strCore (cfg : Cfg) (xs : List String) : Except Err String :=
  match combineSc (cfg.rule "string") "string" xs with
  | .ok (.sc _ v) => .ok v
  | .ok _ => .error .fail
  | .error e => .error e

theorem strCore_rechunk (cfg : Cfg) (xs ys : List String) (hxs : xs ≠ []) :
    EqvE (strCore cfg xs >>= fun r => strCore cfg (r :: ys)) (strCore cfg (xs ++ ys)) := by
  unfold strCore
  cases hc : combineSc (cfg.rule "string") "string" xs with
  | error e =>
    obtain ⟨e', he⟩ := combineSc_mono _ _ xs ys e hxs hc
    simp [bind, Except.bind, he, EqvE]
  | ok x =>
    obtain ⟨u, hu⟩ := combineSc_sc _ _ _ _ hc
    subst hu
    simp only [bind, Except.bind]
    rw [combineSc_rechunk _ _ xs ys u hxs hc]
    exact EqvE.rfl' _

theorem concatStrChunks_rechunk (cfg : Cfg) (xs ys : List String) (hxs : xs ≠ []) :
    EqvE (concatStrChunks cfg xs >>= fun r => concatStrChunks cfg (r :: ys)) (concatStrChunks cfg (xs ++ ys)) :=
  concatStream_rechunk (strCore cfg) (fun a b h => strCore_rechunk cfg a b h) xs ys hxs

theorem concatMapChunks_rechunk (cfg : Cfg) (hs : cfg.Std) (n : Nat) (et : String) (xs ys : List KVs) (hxs : xs ≠ []) :
    EqvE (concatMapChunks cfg n et xs >>= fun r => concatMapChunks cfg n et (r :: ys)) (concatMapChunks cfg n et (xs ++ ys)) :=
  concatStream_rechunk (concatMaps cfg n et) (fun a b _ => concatMaps_rechunk cfg hs n et a b) xs ys hxs

theorem concatMsgChunks_rechunk (cfg : Cfg) (hs : cfg.Std) (n : Nat) (xs ys : List (Option Msg)) (hxs : xs ≠ []) :
    EqvE (concatMsgChunks cfg n xs >>= fun r => concatMsgChunks cfg n (r :: ys)) (concatMsgChunks cfg n (xs ++ ys)) := by
  apply concatStream_rechunk _ _ xs ys hxs
  intro a b _
  have := concatMsgPtrs_rechunk cfg hs n a b
  cases h1 : concatMsgPtrs cfg n a with
  | error e =>
    rw [h1] at this
    obtain ⟨e', he⟩ := EqvE.error_left this
    simp [Except.map, bind, Except.bind, he, EqvE]
  | ok r =>
    rw [h1] at this
    simp only [bind, Except.bind] at this
    simp only [Except.map, bind, Except.bind]
    cases h2 : concatMsgPtrs cfg n (some r :: b) <;> cases h3 : concatMsgPtrs cfg n (a ++ b) <;>
      simp_all [EqvE]

/-! ### tool calls: what the result is (grouping by index, argument order) -/

theorem mergeTC_args (cfg : Cfg) (g c g' : TC) (h : mergeTC cfg g c = .ok g') : g'.args = g.args ++ c.args := by
  unfold mergeTC at h
  cases h1 : pick cfg.tcIdCheck g.id c.id <;> simp [h1, bind, Except.bind] at h
  cases h2 : pick cfg.tcTypeCheck g.type c.type <;> simp [h2] at h
  cases h3 : pick cfg.tcNameCheck g.name c.name <;> simp [h3, pure, Except.pure] at h
  subst h; rfl

theorem insertG_spec (cfg : Cfg) (i : Int) (c : TC) (gs gs' : List (Int × TC)) (hs : GSorted gs)
    (h : insertG cfg i c gs = .ok gs') :
    ∀ j g', (j, g') ∈ gs' →
      (j ≠ i ∧ (j, g') ∈ gs) ∨
      (j = i ∧ ((g' = c ∧ ∀ p ∈ gs, p.1 ≠ i) ∨ ∃ g, (i, g) ∈ gs ∧ mergeTC cfg g c = .ok g')) := by
  induction gs generalizing gs' with
  | nil =>
    simp [insertG] at h; subst h
    intro j g' hm; simp at hm
    right; exact ⟨hm.1, Or.inl ⟨hm.2, by simp⟩⟩
  | cons hd rest ih =>
    obtain ⟨j0, g0⟩ := hd
    obtain ⟨hlb, hsr⟩ := hs
    unfold insertG at h
    split at h
    · rename_i hlt
      cases h
      intro j g' hm
      simp only [List.mem_cons, Prod.mk.injEq] at hm
      rcases hm with ⟨rfl, rfl⟩ | ⟨rfl, rfl⟩ | hm
      · right; refine ⟨rfl, Or.inl ⟨rfl, ?_⟩⟩
        intro p hp; simp only [List.mem_cons] at hp
        rcases hp with rfl | hp
        · simp; omega
        · have := hlb p hp; omega
      · left; exact ⟨by omega, by simp⟩
      · left; have := hlb _ hm; simp only at this; exact ⟨by omega, by simp [hm]⟩
    · split at h
      · rename_i hnlt heq
        cases hm' : mergeTC cfg g0 c <;> simp [hm', bind, Except.bind, pure, Except.pure] at h
        rename_i merged
        subst h; subst heq
        intro j g' hm
        simp only [List.mem_cons, Prod.mk.injEq] at hm
        rcases hm with ⟨rfl, rfl⟩ | hm
        · right; exact ⟨rfl, Or.inr ⟨g0, by simp, hm'⟩⟩
        · left; have := hlb _ hm; simp only at this; exact ⟨by omega, by simp [hm]⟩
      · rename_i hnlt hne
        cases hr : insertG cfg i c rest <;> simp [hr, bind, Except.bind, pure, Except.pure] at h
        rename_i r'
        subst h
        intro j g' hm
        simp only [List.mem_cons, Prod.mk.injEq] at hm
        rcases hm with ⟨rfl, rfl⟩ | hm
        · left; exact ⟨by omega, by simp⟩
        · rcases ih r' hsr hr j g' hm with ⟨h1, h2⟩ | ⟨h1, h2 | ⟨g, hg, hmg⟩⟩
          · left; exact ⟨h1, by simp [h2]⟩
          · right; refine ⟨h1, Or.inl ⟨h2.1, ?_⟩⟩
            intro p hp; simp only [List.mem_cons] at hp
            rcases hp with rfl | hp
            · simp; omega
            · exact h2.2 p hp
          · right; exact ⟨h1, Or.inr ⟨g, by simp [hg], hmg⟩⟩

theorem insertG_keys_sup (cfg : Cfg) (i : Int) (c : TC) (gs gs' : List (Int × TC))
    (h : insertG cfg i c gs = .ok gs') :
    (∃ p ∈ gs', p.1 = i) ∧ ∀ q ∈ gs, ∃ p ∈ gs', p.1 = q.1 := by
  induction gs generalizing gs' with
  | nil => simp [insertG] at h; subst h; simp
  | cons hd rest ih =>
    obtain ⟨j0, g0⟩ := hd
    unfold insertG at h
    split at h
    · cases h
      refine ⟨⟨(i, c), by simp, rfl⟩, ?_⟩
      intro q hq; exact ⟨q, by simp only [List.mem_cons] at hq ⊢; exact Or.inr hq, rfl⟩
    · split at h
      · rename_i heq
        cases hm' : mergeTC cfg g0 c <;> simp [hm', bind, Except.bind, pure, Except.pure] at h
        subst h
        refine ⟨⟨_, List.mem_cons_self, heq.symm⟩, ?_⟩
        intro q hq; simp only [List.mem_cons] at hq
        rcases hq with rfl | hq
        · exact ⟨_, List.mem_cons_self, rfl⟩
        · exact ⟨q, by simp [hq], rfl⟩
      · cases hr : insertG cfg i c rest <;> simp [hr, bind, Except.bind, pure, Except.pure] at h
        subst h
        obtain ⟨⟨p, hp, hpi⟩, h2⟩ := ih _ hr
        refine ⟨⟨p, by simp [hp], hpi⟩, ?_⟩
        intro q hq; simp only [List.mem_cons] at hq
        rcases hq with rfl | hq
        · exact ⟨_, List.mem_cons_self, rfl⟩
        · obtain ⟨p', hp', he⟩ := h2 q hq
          exact ⟨p', by simp [hp'], he⟩

/-- what the fold state means after the chunks `pre` -/
def TCSpec (pre : List TC) (s : TCState) : Prop :=
  s.nils = pre.filter (fun c => c.index = none) ∧
  (∀ j g, (j, g) ∈ s.groups → g.args = joinS ((pre.filter (fun c => c.index = some j)).map (·.args))) ∧
  (∀ i, (∃ c ∈ pre, c.index = some i) ↔ (∃ p ∈ s.groups, p.1 = i))

theorem stepTC_spec (cfg : Cfg) (pre : List TC) (s s' : TCState) (c : TC) (hi : SInv s) (hp : TCSpec pre s)
    (h : stepTC cfg s c = .ok s') : TCSpec (pre ++ [c]) s' := by
  obtain ⟨hn, ha, hk⟩ := hp
  unfold stepTC at h
  split at h
  · rename_i hnone
    cases h
    refine ⟨by simp [List.filter_append, hn, hnone], ?_, ?_⟩
    · intro j g hm
      simp [List.filter_append, hnone, ha j g hm]
    · intro i
      rw [← hk i]
      constructor
      · rintro ⟨c', hc', hi'⟩
        simp only [List.mem_append, List.mem_singleton] at hc'
        rcases hc' with hc' | rfl
        · exact ⟨c', hc', hi'⟩
        · rw [hnone] at hi'; cases hi'
      · rintro ⟨c', hc', hi'⟩; exact ⟨c', by simp [hc'], hi'⟩
  · rename_i i hsome
    cases hr : insertG cfg i c s.groups <;> simp [hr, bind, Except.bind, pure, Except.pure] at h
    rename_i gs'
    subst h
    refine ⟨by simp [List.filter_append, hn, hsome], ?_, ?_⟩
    · intro j g' hm
      simp only at hm
      rcases insertG_spec cfg i c _ _ hi.2.1 hr j g' hm with ⟨hne, hin⟩ | ⟨rfl, ⟨rfl, hno⟩ | ⟨g, hg, hmg⟩⟩
      · have : ¬ (some i = some j) := by intro e; cases e; exact hne rfl
        simp [List.filter_append, hsome, this, ha j g' hin]
      · have hempty : pre.filter (fun c => c.index = some j) = [] := by
          rw [List.filter_eq_nil_iff]
          intro c' hc' hidx
          simp only [decide_eq_true_eq] at hidx
          obtain ⟨p, hp, hpj⟩ := (hk j).1 ⟨c', hc', hidx⟩
          exact hno p hp hpj
        simp [List.filter_append, hsome, hempty, joinS, String.append_empty]
      · rw [mergeTC_args _ _ _ _ hmg, ha _ g hg]
        simp [List.filter_append, hsome, joinS_append, joinS, String.append_empty]
    · intro i'
      simp only
      obtain ⟨hnew, hold⟩ := insertG_keys_sup cfg i c _ _ hr
      constructor
      · rintro ⟨c', hc', hi'⟩
        simp only [List.mem_append, List.mem_singleton] at hc'
        rcases hc' with hc' | rfl
        · obtain ⟨q, hq, hqi⟩ := (hk i').1 ⟨c', hc', hi'⟩
          obtain ⟨p, hp, hpq⟩ := hold q hq
          exact ⟨p, hp, by omega⟩
        · rw [hsome] at hi'; cases hi'; exact hnew
      · rintro ⟨p, hp, hpi⟩
        rcases insertG_keys cfg i c _ _ hr p hp with h1 | ⟨q, hq, he⟩
        · exact ⟨c, by simp, by rw [hsome, ← hpi, h1]⟩
        · obtain ⟨c', hc', hi'⟩ := (hk i').2 ⟨q, hq, by omega⟩
          exact ⟨c', by simp [hc'], hi'⟩

theorem foldlM_stepTC_spec (cfg : Cfg) (cs pre : List TC) (s s' : TCState) (hi : SInv s) (hp : TCSpec pre s)
    (h : cs.foldlM (stepTC cfg) s = .ok s') : TCSpec (pre ++ cs) s' := by
  induction cs generalizing pre s with
  | nil => simp [pure, Except.pure] at h; subst h; simpa using hp
  | cons c cs ih =>
    simp only [List.foldlM_cons] at h
    cases hs : stepTC cfg s c <;> simp [hs, bind, Except.bind] at h
    have := ih (pre ++ [c]) _ (stepTC_inv cfg _ _ _ hi hs) (stepTC_spec cfg pre _ _ c hi hp hs) h
    simpa using this

theorem tcspec_init : TCSpec [] ⟨[], []⟩ := by
  refine ⟨rfl, ?_, ?_⟩
  · intro j g hm; cases hm
  · intro i; simp

theorem gsorted_pairwise (gs : List (Int × TC)) (h : GSorted gs) : gs.Pairwise (fun p q => p.1 < q.1) := by
  induction gs with
  | nil => exact List.Pairwise.nil
  | cons hd tl ih =>
    obtain ⟨j, g⟩ := hd
    exact List.Pairwise.cons (fun p hp => h.1 p hp) (ih h.2)

/-- Everything `concatToolCalls` promises about a successful result. -/
theorem concatTC_spec (cfg : Cfg) (cs out : List TC) (h : concatTC cfg cs = .ok out) :
    ∃ gs : List (Int × TC),
      out = cs.filter (fun c => c.index = none) ++ gs.map (·.2) ∧
      gs.Pairwise (fun p q => p.1 < q.1) ∧
      (∀ p ∈ gs, p.2.index = some p.1) ∧
      (∀ i, (∃ c ∈ cs, c.index = some i) ↔ (∃ p ∈ gs, p.1 = i)) ∧
      (∀ p ∈ gs, p.2.args = joinS ((cs.filter (fun c => c.index = some p.1)).map (·.args))) := by
  unfold concatTC at h
  cases hf : cs.foldlM (stepTC cfg) ⟨[], []⟩ <;> simp [hf, bind, Except.bind, pure, Except.pure] at h
  rename_i s
  subst h
  have hi := foldlM_stepTC_inv cfg cs _ _ sinv_init hf
  have hp := foldlM_stepTC_spec cfg cs [] _ _ sinv_init tcspec_init hf
  simp only [List.nil_append] at hp
  obtain ⟨hn, ha, hk⟩ := hp
  refine ⟨s.groups, by simp [TCState.out, hn], gsorted_pairwise _ hi.2.1, hi.2.2, hk, ?_⟩
  intro p hp; exact ha p.1 p.2 hp

/-! ### error classes: which outcomes are reachable -/

theorem pick_err (c : Bool) (a b : String) (e : Err) (h : pick c a b = .error e) : e = .fail := by
  unfold pick at h
  split at h; · cases h
  split at h; · cases h
  split at h <;> cases h; rfl

theorem firstNE_err (c : Bool) (acc : String) (l : List String) (e : Err) (h : firstNE c acc l = .error e) :
    e = .fail := by
  induction l generalizing acc with
  | nil => simp [firstNE] at h
  | cons x xs ih =>
    simp only [firstNE] at h
    cases hp : pick c acc x with
    | error e' => simp [hp, bind, Except.bind] at h; subst h; exact pick_err _ _ _ _ hp
    | ok a => simp [hp, bind, Except.bind] at h; exact ih a h

theorem mergeTC_err (cfg : Cfg) (g c : TC) (e : Err) (h : mergeTC cfg g c = .error e) : e = .fail := by
  unfold mergeTC at h
  cases h1 : pick cfg.tcIdCheck g.id c.id with
  | error e' => simp [h1, bind, Except.bind] at h; subst h; exact pick_err _ _ _ _ h1
  | ok a =>
    simp [h1, bind, Except.bind] at h
    cases h2 : pick cfg.tcTypeCheck g.type c.type with
    | error e' => simp [h2] at h; subst h; exact pick_err _ _ _ _ h2
    | ok b =>
      simp [h2] at h
      cases h3 : pick cfg.tcNameCheck g.name c.name with
      | error e' => simp [h3] at h; subst h; exact pick_err _ _ _ _ h3
      | ok d => simp [h3, pure, Except.pure] at h

theorem insertG_err (cfg : Cfg) (i : Int) (c : TC) (gs : List (Int × TC)) (e : Err)
    (h : insertG cfg i c gs = .error e) : e = .fail := by
  induction gs with
  | nil => simp [insertG] at h
  | cons hd rest ih =>
    obtain ⟨j, g⟩ := hd
    unfold insertG at h
    split at h; · cases h
    split at h
    · cases hm : mergeTC cfg g c with
      | error e' => simp [hm, bind, Except.bind] at h; subst h; exact mergeTC_err _ _ _ _ hm
      | ok g' => simp [hm, bind, Except.bind, pure, Except.pure] at h
    · cases hr : insertG cfg i c rest with
      | error e' => simp [hr, bind, Except.bind] at h; subst h; exact ih hr
      | ok r => simp [hr, bind, Except.bind, pure, Except.pure] at h

theorem stepTC_err (cfg : Cfg) (s : TCState) (c : TC) (e : Err) (h : stepTC cfg s c = .error e) : e = .fail := by
  unfold stepTC at h
  split at h; · cases h
  rename_i i _
  cases hr : insertG cfg i c s.groups with
  | error e' => simp [hr, bind, Except.bind] at h; subst h; exact insertG_err _ _ _ _ _ hr
  | ok r => simp [hr, bind, Except.bind, pure, Except.pure] at h

theorem concatTC_err (cfg : Cfg) (cs : List TC) (e : Err) (h : concatTC cfg cs = .error e) : e = .fail := by
  unfold concatTC at h
  have key : ∀ (cs : List TC) (s : TCState), cs.foldlM (stepTC cfg) s = .error e → e = .fail := by
    intro cs
    induction cs with
    | nil => intro s h; simp [pure, Except.pure] at h
    | cons c cs ih =>
      intro s h
      simp only [List.foldlM_cons] at h
      cases hs : stepTC cfg s c with
      | error e' => simp [hs, bind, Except.bind] at h; subst h; exact stepTC_err _ _ _ _ hs
      | ok s1 => simp [hs, bind, Except.bind] at h; exact ih s1 h
  cases hf : cs.foldlM (stepTC cfg) ⟨[], []⟩ with
  | error e' => simp [hf, bind, Except.bind] at h; subst h; exact key _ _ hf
  | ok s => simp [hf, bind, Except.bind, pure, Except.pure] at h

theorem assemble_err_exact (R N I T E c m rm) (x : Err) (h : assemble R N I T E c m rm = .error x) :
    R = .error x ∨ N = .error x ∨ I = .error x ∨ T = .error x ∨ E = .error x := by
  unfold assemble at h
  cases R <;> cases N <;> cases I <;> cases T <;> cases E <;>
    simp_all [bind, Except.bind, pure, Except.pure]

/-- an error of `ConcatMessages` is an ordinary failure or comes from the extras -/
theorem concatMsgs_err (cfg : Cfg) (n : Nat) (ms : List Msg) (e : Err) (h : concatMsgs cfg n ms = .error e) :
    e = .fail ∨ concatEvs cfg n "any" (ms.map (·.extra)).flatten = .error e := by
  rw [concatMsgs_eq] at h
  rcases assemble_err_exact _ _ _ _ _ _ _ _ _ h with h | h | h | h | h
  · exact Or.inl (firstNE_err _ _ _ _ h)
  · exact Or.inl (firstNE_err _ _ _ _ h)
  · exact Or.inl (firstNE_err _ _ _ _ h)
  · exact Or.inl (concatTC_err _ _ _ h)
  · exact Or.inr h

def extrasDepth (ms : List Msg) : Nat := depthKVs (ms.map (·.extra)).flatten

theorem concatMsgs_total (cfg : Cfg) (hs : cfg.Std) (hg : cfg.nilAbsent = true) (n : Nat) (ms : List Msg)
    (hn : extrasDepth ms < n) :
    (∃ m, concatMsgs cfg n ms = .ok m) ∨ concatMsgs cfg n ms = .error .fail := by
  cases h : concatMsgs cfg n ms with
  | ok m => exact Or.inl ⟨m, rfl⟩
  | error e =>
    right
    rcases concatMsgs_err cfg n ms e h with h1 | h2
    · rw [h1]
    · cases e with
      | fail => rfl
      | panic => exact absurd h2 (concatEvs_no_panic cfg hs hg n _ _)
      | fuel => exact absurd h2 (concatEvs_fuel_ok cfg hs n _ _ hn)

theorem concatMsgPtrs_total (cfg : Cfg) (hs : cfg.Std) (hg : cfg.nilAbsent = true) (n : Nat) (cs : List (Option Msg))
    (hn : ∀ ms, allSome cs = some ms → extrasDepth ms < n) :
    (∃ m, concatMsgPtrs cfg n cs = .ok m) ∨ concatMsgPtrs cfg n cs = .error .fail := by
  unfold concatMsgPtrs
  cases h : allSome cs with
  | none => exact Or.inr rfl
  | some ms => exact concatMsgs_total cfg hs hg n ms (hn ms h)

theorem concatMaps_total (cfg : Cfg) (hs : cfg.Std) (hg : cfg.nilAbsent = true) (n : Nat) (et : String) (ms : List KVs)
    (hn : depthKVs ms.flatten < n) :
    (∃ m, concatMaps cfg n et ms = .ok m) ∨ concatMaps cfg n et ms = .error .fail := by
  unfold concatMaps
  cases h : concatEvs cfg n et ms.flatten with
  | ok m => exact Or.inl ⟨m, rfl⟩
  | error e =>
    right
    cases e with
    | fail => rfl
    | panic => exact absurd h (concatEvs_no_panic cfg hs hg n _ _)
    | fuel => exact absurd h (concatEvs_fuel_ok cfg hs n _ _ hn)

theorem concatStream_total {α} (core : List α → Except Err α)
    (hc : ∀ xs, xs ≠ [] → (∃ m, core xs = .ok m) ∨ core xs = .error .fail) (xs : List α) :
    (∃ m, concatStream core xs = .ok m) ∨ concatStream core xs = .error .fail := by
  cases xs with
  | nil => exact Or.inr rfl
  | cons x t =>
    cases t with
    | nil => exact Or.inl ⟨x, rfl⟩
    | cons y t' => exact hc _ (by simp)

theorem strCore_total (cfg : Cfg) (xs : List String) (hxs : xs ≠ []) :
    (∃ m, strCore cfg xs = .ok m) ∨ strCore cfg xs = .error .fail := by
  unfold strCore
  cases xs with
  | nil => exact absurd rfl hxs
  | cons v ps =>
    cases hc : combineSc (cfg.rule "string") "string" (v :: ps) with
    | error e => right; rw [combineSc_err _ _ _ _ _ hc]
    | ok x =>
      obtain ⟨u, hu⟩ := combineSc_sc _ _ _ _ hc
      subst hu; exact Or.inl ⟨u, rfl⟩

/-! ### what a successful `ConcatMessages` returns, field by field -/

theorem concatMsgs_ok_fields (cfg : Cfg) (n : Nat) (ms : List Msg) (m : Msg) (h : concatMsgs cfg n ms = .ok m) :
    firstNE cfg.roleCheck "" (ms.map (·.role)) = .ok m.role ∧
    firstNE cfg.nameCheck "" (ms.map (·.name)) = .ok m.name ∧
    firstNE cfg.tcidCheck "" (ms.map (·.toolCallID)) = .ok m.toolCallID ∧
    m.content = joinS (ms.map (·.content)) ∧
    m.multi = lastNEl [] (ms.map (·.multi)) ∧
    concatTC cfg (ms.flatMap (·.toolCalls)) = .ok m.toolCalls ∧
    m.rmeta = concatMeta (ms.map (·.rmeta)) ∧
    concatEvs cfg n "any" (ms.map (·.extra)).flatten = .ok m.extra := by
  rw [concatMsgs_eq] at h
  obtain ⟨a, b, i, d, e, hR, hN, hI, hT, hE, hr⟩ := assemble_ok _ _ _ _ _ _ _ _ _ h
  subst hr
  exact ⟨hR, hN, hI, rfl, rfl, hT, rfl, hE⟩

def isPanic {α} : Except Err α → Bool
  | .error .panic => true
  | _ => false

def isFail {α} : Except Err α → Bool
  | .error .fail => true
  | _ => false

/-! ### the fuel is irrelevant once it exceeds the nesting depth -/

theorem perKeyW_congr (cfg : Cfg) (rec rec' : String → List KVs → Except Err KVs) (ws : List XVal)
    (h : ∀ et ms, ms ≠ [] → (∀ m ∈ ms, XVal.map et m ∈ ws) → rec et ms = rec' et ms) :
    perKeyW cfg rec ws = perKeyW cfg rec' ws := by
  cases ws with
  | nil => rfl
  | cons w rest =>
    cases w with
    | nil => rfl
    | sc ty v => rfl
    | map et kvs =>
      simp only [perKeyW]
      cases hp : rest.mapM (asMap et) with
      | error e => rfl
      | ok ms =>
        simp only [bind, Except.bind]
        rw [h et (kvs :: ms) (by simp)]
        intro m hm
        simp only [List.mem_cons] at hm
        rcases hm with rfl | hm
        · simp
        · obtain ⟨x, hx, hfx⟩ := mapM_mem_ok _ _ _ hp m hm
          have : x = .map et m := asMap_ok _ _ _ hfx
          subst this
          simp [hx]

theorem perKey_congr (cfg : Cfg) (rec rec' : String → List KVs → Except Err KVs) (vs : List XVal)
    (h : ∀ et ms, ms ≠ [] → (∀ m ∈ ms, XVal.map et m ∈ vs) → rec et ms = rec' et ms) :
    perKey cfg rec vs = perKey cfg rec' vs := by
  unfold perKey
  apply perKeyW_congr
  intro et ms hne hms
  apply h et ms hne
  intro m hm
  have := hms m hm
  unfold dropNil at this
  split at this
  · exact (List.mem_filter.1 this).1
  · exact this

theorem buildM_congr_eq (f f' : String → Except Err XVal) (ks : List String) (h : ∀ k ∈ ks, f k = f' k) :
    buildM f ks = buildM f' ks := by
  induction ks with
  | nil => rfl
  | cons k ks ih =>
    rw [buildM_cons, buildM_cons, h k (by simp), ih (fun k' hk' => h k' (by simp [hk']))]

theorem concatEvs_fuel_irrelevant (cfg : Cfg) (hs : cfg.Std) (n : Nat) : ∀ (m : Nat) (et : String) (evs : KVs),
    depthKVs evs < n → depthKVs evs < m → concatEvs cfg n et evs = concatEvs cfg m et evs := by
  induction n with
  | zero => intro m et evs hn hm; omega
  | succ n ih =>
    intro m et evs hn hm
    cases m with
    | zero => omega
    | succ m =>
      rw [concatEvs_succ cfg hs, concatEvs_succ cfg hs]
      apply buildM_congr_eq
      intro k _
      apply perKey_congr
      intro et' ms hne hms
      have hb : ∀ x ∈ ms, depthKVs x + 1 ≤ depthKVs evs := by
        intro x hx
        have h1 := depth_mem evs k _ (mem_vals evs k _ (hms x hx))
        rw [depth_map] at h1
        omega
      have hpos : 0 < depthKVs evs := by
        cases ms with
        | nil => exact absurd rfl hne
        | cons x _ => have := hb x (by simp); omega
      have hfl := depthKVs_flatten ms (depthKVs evs - 1) (fun x hx => by have := hb x hx; omega)
      exact ih m et' ms.flatten (by omega) (by omega)

theorem concatMsgs_fuel_irrelevant (cfg : Cfg) (hs : cfg.Std) (n m : Nat) (ms : List Msg) (hn : extrasDepth ms < n) (hm : extrasDepth ms < m) :
    concatMsgs cfg n ms = concatMsgs cfg m ms := by
  rw [concatMsgs_eq, concatMsgs_eq, concatEvs_fuel_irrelevant cfg hs n m _ _ hn hm]

/-! ### message arrays -/

theorem concatCol_rechunk (cfg : Cfg) (hs : cfg.Std) (n : Nat) (a b : List (Option Msg)) :
    EqvE (concatCol cfg n a >>= fun r => concatCol cfg n (r :: b)) (concatCol cfg n (a ++ b)) := by
  unfold concatCol
  simp only [List.filterMap_append, List.filterMap_cons]
  generalize a.filterMap id = fa
  generalize b.filterMap id = fb
  cases fa with
  | nil => simp [bind, Except.bind]; exact EqvE.rfl' _
  | cons x t =>
    cases t with
    | nil => simp [bind, Except.bind]; exact EqvE.rfl' _
    | cons y t' =>
      have law := concatMsgs_rechunk cfg hs n (x :: y :: t') fb
      simp only [List.cons_append] at law ⊢
      cases hc : concatMsgs cfg n (x :: y :: t') with
      | error e =>
        rw [hc] at law
        obtain ⟨e', he⟩ := EqvE.error_left law
        simp [Except.map, bind, Except.bind, he, EqvE]
      | ok r =>
        rw [hc] at law
        simp only [bind, Except.bind] at law
        simp only [Except.map, bind, Except.bind, id]
        cases fb with
        | nil =>
          simp only [List.append_nil] at law ⊢
          rw [hc]; simp [EqvE]
        | cons z t'' =>
          simp only at law ⊢
          cases h1 : concatMsgs cfg n (r :: z :: t'') <;> cases h2 : concatMsgs cfg n (x :: y :: (t' ++ z :: t'')) <;>
            simp_all [EqvE]

theorem mapM_ok_get {α β} (f : α → Except Err β) (l : List α) (r : List β) (h : l.mapM f = .ok r) :
    r.length = l.length ∧ ∀ i (hi : i < l.length) (hr : i < r.length), f l[i] = .ok r[i] := by
  induction l generalizing r with
  | nil => simp [pure, Except.pure] at h; subst h; simp
  | cons a l ih =>
    rw [List.mapM_cons] at h
    cases ha : f a <;> simp [ha, bind, Except.bind] at h
    cases hl : l.mapM f <;> simp [hl, pure, Except.pure] at h
    subst h
    obtain ⟨h1, h2⟩ := ih _ hl
    refine ⟨by simp [h1], ?_⟩
    intro i hi hr
    cases i with
    | zero => simpa using ha
    | succ j => simpa using h2 j (by simpa using hi) (by simpa using hr)

theorem mapM_congr_eqv {α β} (f g : α → Except Err β) (l : List α) (h : ∀ x ∈ l, EqvE (f x) (g x)) :
    EqvE (l.mapM f) (l.mapM g) := by
  induction l with
  | nil => simp [pure, Except.pure, EqvE]
  | cons a l ih =>
    rw [List.mapM_cons, List.mapM_cons]
    have ha := h a (by simp)
    have ih' := ih (fun x hx => h x (by simp [hx]))
    cases hf : f a <;> cases hg : g a <;> simp [hf, hg, EqvE] at ha
    · simp [bind, Except.bind, EqvE]
    · subst ha
      cases h1 : l.mapM f <;> cases h2 : l.mapM g <;> simp [h1, h2, EqvE] at ih'
      · simp [bind, Except.bind, EqvE]
      · subst ih'; simp [bind, Except.bind, pure, Except.pure, EqvE]

theorem mapM_error_of_mem {α β} (f : α → Except Err β) (l : List α) (x : α) (hx : x ∈ l) (e : Err)
    (h : f x = .error e) : ∃ e', l.mapM f = .error e' := by
  induction l with
  | nil => cases hx
  | cons a l ih =>
    rw [List.mapM_cons]
    cases hf : f a with
    | error e' => exact ⟨e', rfl⟩
    | ok v =>
      simp only [List.mem_cons] at hx
      rcases hx with rfl | hx
      · rw [hf] at h; cases h
      · obtain ⟨e', he⟩ := ih hx
        exact ⟨e', by simp [bind, Except.bind, he]⟩

theorem concatArr_rechunk (cfg : Cfg) (hs : cfg.Std) (n : Nat) (xs ys : List (List (Option Msg))) (hxs : xs ≠ []) :
    EqvE (concatArr cfg n xs >>= fun r => concatArr cfg n (r :: ys)) (concatArr cfg n (xs ++ ys)) := by
  cases xs with
  | nil => exact absurd rfl hxs
  | cons a0 t =>
    simp only [concatArr, List.cons_append]
    by_cases hx : (a0 :: t).all (fun a => a.length == a0.length) = true
    · rw [if_pos hx]
      cases hm : (List.range a0.length).mapM (fun i => concatCol cfg n ((a0 :: t).map (fun a => a.getD i none))) with
      | error e =>
        obtain ⟨i, hi, he⟩ := mapM_error_mem _ _ _ hm
        simp only [bind, Except.bind]
        by_cases hy : (a0 :: (t ++ ys)).all (fun a => a.length == a0.length) = true
        · rw [if_pos hy]
          have law := concatCol_rechunk cfg hs n ((a0 :: t).map (fun a => a.getD i none)) (ys.map (fun a => a.getD i none))
          rw [he] at law
          obtain ⟨e', he'⟩ := EqvE.error_left law
          obtain ⟨e'', he''⟩ := mapM_error_of_mem
            (fun i => concatCol cfg n ((a0 :: (t ++ ys)).map (fun a => a.getD i none))) _ i hi e'
            (by simpa using he')
          rw [he'']; simp [EqvE]
        · rw [if_neg hy]; simp [EqvE]
      | ok r =>
        obtain ⟨hlen, hget⟩ := mapM_ok_get _ _ _ hm
        simp only [List.length_range] at hlen
        simp only [bind, Except.bind]
        have hall : (r :: ys).all (fun a => a.length == r.length) = (a0 :: (t ++ ys)).all (fun a => a.length == a0.length) := by
          simp only [List.all_cons, List.all_append, hlen, beq_self_eq_true, Bool.true_and] at hx ⊢
          rw [hx]; simp
        rw [hall]
        by_cases hy : (a0 :: (t ++ ys)).all (fun a => a.length == a0.length) = true
        · rw [if_pos hy, if_pos hy, hlen]
          apply mapM_congr_eqv
          intro i hi
          simp only [List.mem_range] at hi
          have law := concatCol_rechunk cfg hs n ((a0 :: t).map (fun a => a.getD i none)) (ys.map (fun a => a.getD i none))
          have hgi := hget i (by simpa using hi) (by omega)
          simp only [List.getElem_range] at hgi
          rw [hgi] at law
          simp only [bind, Except.bind] at law
          have hri : r[i]? = some (r[i]'(by omega)) := List.getElem?_eq_getElem (by omega)
          simpa [hri] using law
        · rw [if_neg hy, if_neg hy]; simp [EqvE]
    · rw [if_neg hx]
      have hy : ¬ ((a0 :: (t ++ ys)).all (fun a => a.length == a0.length) = true) := by
        intro h; apply hx
        simp only [List.all_cons, List.all_append, Bool.and_eq_true] at h ⊢
        exact ⟨h.1, h.2.1⟩
      rw [if_neg hy]; simp [bind, Except.bind, EqvE]

theorem concatArrChunks_rechunk (cfg : Cfg) (hs : cfg.Std) (n : Nat) (xs ys : List (List (Option Msg))) (hxs : xs ≠ []) :
    EqvE (concatArrChunks cfg n xs >>= fun r => concatArrChunks cfg n (r :: ys)) (concatArrChunks cfg n (xs ++ ys)) :=
  concatStream_rechunk (concatArr cfg n) (fun a b h => concatArr_rechunk cfg hs n a b h) xs ys hxs


theorem concatMsgs_no_panic (cfg : Cfg) (hs : cfg.Std) (hg : cfg.nilAbsent = true) (n : Nat) (ms : List Msg) :
    concatMsgs cfg n ms ≠ .error .panic := by
  intro he
  rcases concatMsgs_err cfg n ms _ he with h1 | h2
  · cases h1
  · exact concatEvs_no_panic cfg hs hg n _ _ h2

theorem concatCol_no_panic (cfg : Cfg) (hs : cfg.Std) (hg : cfg.nilAbsent = true) (n : Nat) (col : List (Option Msg)) :
    concatCol cfg n col ≠ .error .panic := by
  unfold concatCol
  generalize col.filterMap id = fm
  split
  · simp
  · simp
  · intro h
    cases hc : concatMsgs cfg n fm with
    | ok m => simp [hc, Except.map] at h
    | error e =>
      simp [hc, Except.map] at h
      subst h
      exact concatMsgs_no_panic cfg hs hg n fm hc

/-- through `concatStreamReader` the array concatenation never panics: `mas[0]` is only
    evaluated on ≥ 2 arrays -/
theorem concatArrChunks_no_panic (cfg : Cfg) (hs : cfg.Std) (hg : cfg.nilAbsent = true) (n : Nat)
    (xs : List (List (Option Msg))) : concatArrChunks cfg n xs ≠ .error .panic := by
  unfold concatArrChunks
  cases xs with
  | nil => simp [concatStream]
  | cons a t =>
    cases t with
    | nil => simp [concatStream]
    | cons b t' =>
      simp only [concatStream, concatArr]
      split
      · intro h
        obtain ⟨i, _, he⟩ := mapM_error_mem _ _ _ h
        exact concatCol_no_panic cfg hs hg n _ he
      · simp

/-! ### chunks of type `any` (interface element type: single non-nil rule, nil result) -/

/-- `concatStream_rechunk` with the law of `core` needed for the given lists only -/
theorem concatStream_rechunk' {α} (core : List α → Except Err α) (xs ys : List α) (hxs : xs ≠ [])
    (hcore : EqvE (core xs >>= fun r => core (r :: ys)) (core (xs ++ ys))) :
    EqvE (concatStream core xs >>= fun r => concatStream core (r :: ys)) (concatStream core (xs ++ ys)) := by
  cases xs with
  | nil => exact absurd rfl hxs
  | cons x t =>
    cases t with
    | nil => simp only [concatStream, bind, Except.bind, List.cons_append, List.nil_append]; exact EqvE.rfl' _
    | cons x' t' =>
      cases ys with
      | nil =>
        simp only [concatStream, List.append_nil]
        cases core (x :: x' :: t') <;> simp [bind, Except.bind, EqvE, concatStream]
      | cons y t'' =>
        have := hcore
        simp only [concatStream, List.cons_append] at this ⊢
        cases hc : core (x :: x' :: t') with
        | error e => rw [hc] at this; simpa [bind, Except.bind] using this
        | ok r => rw [hc] at this; simpa [bind, Except.bind, concatStream] using this

theorem anyCore_rechunk (cfg : Cfg) (xs ys : List XVal)
    (h : cfg.nilResultGuard = true ∨ ∃ x ∈ xs, x.isNil = false) :
    EqvE (anyCore cfg xs >>= fun r => anyCore cfg (r :: ys)) (anyCore cfg (xs ++ ys)) := by
  unfold anyCore
  simp only [List.filter_append]
  cases hf : xs.filter (fun v => !v.isNil) with
  | nil =>
    have hg : cfg.nilResultGuard = true := by
      rcases h with h | ⟨x, hx, hn⟩
      · exact h
      · have : x ∈ xs.filter (fun v => !v.isNil) := List.mem_filter.2 ⟨hx, by simp [hn]⟩
        rw [hf] at this; cases this
    simp only [hg, if_true, bind, Except.bind, List.filter_cons, XVal.isNil, Bool.not_true, Bool.false_eq_true,
      if_false, List.nil_append]
    exact EqvE.rfl' _
  | cons v t =>
    have hv : (!v.isNil) = true := by
      have : v ∈ xs.filter (fun v => !v.isNil) := by rw [hf]; simp
      exact (List.mem_filter.1 this).2
    cases t with
    | nil =>
      simp only [bind, Except.bind, List.filter_cons, hv, if_true, List.cons_append, List.nil_append]
      exact EqvE.rfl' _
    | cons w t' => simp [bind, Except.bind, EqvE]

theorem anyCore_total (cfg : Cfg) (xs : List XVal)
    (h : cfg.nilResultGuard = true ∨ ∃ x ∈ xs, x.isNil = false) :
    (∃ v, anyCore cfg xs = .ok v) ∨ anyCore cfg xs = .error .fail := by
  unfold anyCore
  cases hf : xs.filter (fun v => !v.isNil) with
  | nil =>
    rcases h with h | ⟨x, hx, hn⟩
    · simp [h]
    · have : x ∈ xs.filter (fun v => !v.isNil) := List.mem_filter.2 ⟨hx, by simp [hn]⟩
      rw [hf] at this; cases this
  | cons v t => cases t <;> simp

theorem concatAnyChunks_rechunk (cfg : Cfg) (xs ys : List XVal) (hxs : xs ≠ [])
    (h : cfg.nilResultGuard = true ∨ ∃ x ∈ xs, x.isNil = false) :
    EqvE (concatAnyChunks cfg xs >>= fun r => concatAnyChunks cfg (r :: ys)) (concatAnyChunks cfg (xs ++ ys)) :=
  concatStream_rechunk' (anyCore cfg) xs ys hxs (anyCore_rechunk cfg xs ys h)

theorem concatAnyChunks_total (cfg : Cfg) (xs : List XVal)
    (h : cfg.nilResultGuard = true ∨ (∃ x ∈ xs, x.isNil = false) ∨ xs.length < 2) :
    (∃ v, concatAnyChunks cfg xs = .ok v) ∨ concatAnyChunks cfg xs = .error .fail := by
  unfold concatAnyChunks
  cases xs with
  | nil => exact Or.inr rfl
  | cons x t =>
    cases t with
    | nil => exact Or.inl ⟨x, rfl⟩
    | cons y t' =>
      apply anyCore_total
      rcases h with h | h | h
      · exact Or.inl h
      · exact Or.inr h
      · simp only [List.length_cons] at h; omega

/-! ### splitting one nested map value over two consecutive chunks -/

theorem keysOf_dup (k : String) (l : List String) : keysOf (k :: k :: l) = keysOf (k :: l) := by
  simp [keysOf, List.filter_filter]

theorem keysOf_dup_mid (A B : List String) (k : String) : keysOf (A ++ k :: k :: B) = keysOf (A ++ k :: B) := by
  rw [keysOf_append, keysOf_append, keysOf_dup]

theorem asSc_map (ty e : String) (m : KVs) : asSc ty (.map e m) = .error .fail := rfl

theorem mapM_asSc_split (ty e : String) (V V' : List XVal) (a b c : KVs) :
    (V ++ .map e a :: V').mapM (asSc ty) = (V ++ .map e b :: .map e c :: V').mapM (asSc ty) := by
  rw [mapM_append_except, mapM_append_except]
  cases V.mapM (asSc ty) with
  | error x => rfl
  | ok ps => simp [List.mapM_cons, asSc_map, bind, Except.bind]

theorem mapM_asMap_split (e' e : String) (V V' : List XVal) (a b : KVs) :
    ((V ++ .map e (a ++ b) :: V').mapM (asMap e') = (V ++ .map e a :: .map e b :: V').mapM (asMap e') ∧ e ≠ e') ∨
    (e = e' ∧ ∃ r : Except Err (List KVs × List KVs),
      (V ++ .map e (a ++ b) :: V').mapM (asMap e') = r.map (fun p => p.1 ++ (a ++ b) :: p.2) ∧
      (V ++ .map e a :: .map e b :: V').mapM (asMap e') = r.map (fun p => p.1 ++ a :: b :: p.2)) := by
  by_cases he : e = e'
  · right
    refine ⟨he, ?_⟩
    subst he
    rw [mapM_append_except, mapM_append_except]
    cases h1 : V.mapM (asMap e) with
    | error x => exact ⟨.error x, rfl, rfl⟩
    | ok m1 =>
      cases h2 : V'.mapM (asMap e) with
      | error x =>
        exact ⟨.error x, by simp [List.mapM_cons, asMap, h2, bind, Except.bind, Except.map],
          by simp [List.mapM_cons, asMap, h2, bind, Except.bind, Except.map]⟩
      | ok m2 =>
        exact ⟨.ok (m1, m2), by simp [List.mapM_cons, asMap, h2, bind, Except.bind, Except.map, pure, Except.pure],
          by simp [List.mapM_cons, asMap, h2, bind, Except.bind, Except.map, pure, Except.pure]⟩
  · left
    refine ⟨?_, he⟩
    rw [mapM_append_except, mapM_append_except]
    cases V.mapM (asMap e') with
    | error x => rfl
    | ok ps => simp [List.mapM_cons, asMap, he, bind, Except.bind]

theorem perKeyW_split (cfg : Cfg) (rec : String → List KVs → Except Err KVs)
    (hrec : ∀ et ms ms', ms.flatten = ms'.flatten → rec et ms = rec et ms')
    (W W' : List XVal) (e : String) (a b : KVs) :
    perKeyW cfg rec (W ++ .map e (a ++ b) :: W') = perKeyW cfg rec (W ++ .map e a :: .map e b :: W') := by
  cases W with
  | nil =>
    simp only [List.nil_append, perKeyW, List.mapM_cons, asMap, if_true, bind, Except.bind]
    cases W'.mapM (asMap e) with
    | error x => rfl
    | ok ms =>
      simp only [pure, Except.pure]
      rw [hrec e ((a ++ b) :: ms) (a :: b :: ms) (by simp)]
  | cons w W1 =>
    cases w with
    | nil => rfl
    | sc ty v =>
      simp only [List.cons_append, perKeyW]
      rw [mapM_asSc_split ty e W1 W' (a ++ b) a b]
    | map e' kvs =>
      simp only [List.cons_append, perKeyW]
      rcases mapM_asMap_split e' e W1 W' a b with ⟨h, _⟩ | ⟨he, r, h1, h2⟩
      · rw [h]
      · rw [h1, h2]
        cases r with
        | error x => rfl
        | ok p =>
          simp only [Except.map, bind, Except.bind]
          rw [hrec e' (kvs :: (p.1 ++ (a ++ b) :: p.2)) (kvs :: (p.1 ++ a :: b :: p.2)) (by simp)]

theorem perKey_split (cfg : Cfg) (rec : String → List KVs → Except Err KVs)
    (hrec : ∀ et ms ms', ms.flatten = ms'.flatten → rec et ms = rec et ms')
    (W W' : List XVal) (e : String) (a b : KVs) :
    perKey cfg rec (W ++ .map e (a ++ b) :: W') = perKey cfg rec (W ++ .map e a :: .map e b :: W') := by
  unfold perKey
  rw [dropNil_append, dropNil_append, dropNil_cons_nonnil _ _ _ rfl, dropNil_cons_nonnil _ _ _ rfl,
    dropNil_cons_nonnil _ _ _ rfl]
  exact perKeyW_split cfg rec hrec _ _ e a b

theorem vals_cons_ne (k k' : String) (v : XVal) (B : KVs) (h : k ≠ k') : vals ((k, v) :: B) k' = vals B k' := by
  simp [vals, List.filter_cons, h]

theorem vals_cons_eq (k : String) (v : XVal) (B : KVs) : vals ((k, v) :: B) k = v :: vals B k := by
  simp [vals, List.filter_cons]

/-- A nested map value (of any map type) of one chunk may be delivered in two consecutive
    chunks instead, each holding part of its entries: `concatMaps` gives the same result. -/
theorem concatEvs_split_nested (cfg : Cfg) (hs : cfg.Std) (n : Nat) (et : String) (A B : KVs) (k e : String) (a b : KVs) :
    concatEvs cfg n et (A ++ (k, .map e (a ++ b)) :: B) = concatEvs cfg n et (A ++ (k, .map e a) :: (k, .map e b) :: B) := by
  cases n with
  | zero => rfl
  | succ n =>
    rw [concatEvs_succ cfg hs, concatEvs_succ cfg hs]
    have hk : keysOf ((A ++ (k, XVal.map e a) :: (k, XVal.map e b) :: B).map (·.1)) =
        keysOf ((A ++ (k, XVal.map e (a ++ b)) :: B).map (·.1)) := by
      simp only [List.map_append, List.map_cons, keysOf_dup_mid]
    rw [hk]
    apply buildM_congr_eq
    intro k' _
    by_cases h : k = k'
    · subst h
      simp only [vals_append, vals_cons_eq]
      apply perKey_split
      intro et' ms ms' hfl
      simp only [hfl]
    · simp only [vals_append, vals_cons_ne _ _ _ _ h]

end EinoV.C14
