/-
  C02 — helper lemmas about the DAG channel (no property statements here).
-/
import EinoV.Model.Engine

namespace EinoV.Engine

theorem collect_ne_notReady {V} (ops : ValOps V) (l : List V) (h : l ≠ []) :
    collect ops l ≠ .notReady := by
  match l, h with
  | [v], _ => simp [collect]
  | a :: b :: t, _ =>
    simp only [collect]
    cases ops.merge (a :: b :: t) <;> simp

theorem collect_ready {V} (ops : ValOps V) (l : List V) (v : V) (h : collect ops l = .ready v) :
    l = [v] ∨ (2 ≤ l.length ∧ ops.merge l = some v) := by
  match l with
  | [] => simp [collect] at h
  | [w] => simp [collect] at h; exact Or.inl (by rw [h])
  | a :: b :: t =>
    simp only [collect] at h
    cases hm : ops.merge (a :: b :: t) with
    | none => simp [hm] at h
    | some w => simp [hm] at h; subst h; exact Or.inr ⟨by simp, rfl⟩

end EinoV.Engine
