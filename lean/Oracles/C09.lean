import EinoV.Basic.OracleLoop
import EinoV.Oracle.C09
def main : IO Unit := EinoV.oracleMain EinoV.Oracle.C09.handle
