import EinoV.Basic.OracleLoop
import EinoV.Oracle.C11
def main : IO Unit := EinoV.oracleMain EinoV.Oracle.C11.handle
