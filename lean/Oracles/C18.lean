import EinoV.Basic.OracleLoop
import EinoV.Oracle.C18
def main : IO Unit := EinoV.oracleMain EinoV.Oracle.C18.handle
