import EinoV.Basic.OracleLoop
import EinoV.Oracle.C17
def main : IO Unit := EinoV.oracleMain EinoV.Oracle.C17.handle
