import EinoV.Basic.OracleLoop
import EinoV.Oracle.C15
def main : IO Unit := EinoV.oracleMain EinoV.Oracle.C15.handle
