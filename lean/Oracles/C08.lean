import EinoV.Basic.OracleLoop
import EinoV.Oracle.C08
def main : IO Unit := EinoV.oracleMain EinoV.Oracle.C08.handle
