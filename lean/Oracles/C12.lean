import EinoV.Basic.OracleLoop
import EinoV.Oracle.C12
def main : IO Unit := EinoV.oracleMain EinoV.Oracle.C12.handle
