import EinoV.Basic.OracleLoop
import EinoV.Oracle.C06
def main : IO Unit := EinoV.oracleMain EinoV.Oracle.C06.handle
