import EinoV.Basic.OracleLoop
import EinoV.Oracle.C19
def main : IO Unit := EinoV.oracleMain EinoV.Oracle.C19.handle
