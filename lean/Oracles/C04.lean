import EinoV.Basic.OracleLoop
import EinoV.Oracle.C04
def main : IO Unit := EinoV.oracleMain EinoV.Oracle.C04.handle
