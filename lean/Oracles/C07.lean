import EinoV.Basic.OracleLoop
import EinoV.Oracle.C07
def main : IO Unit := EinoV.oracleMain EinoV.Oracle.C07.handle
