import EinoV.Basic.OracleLoop
import EinoV.Oracle.C01
def main : IO Unit := EinoV.oracleMain EinoV.Oracle.C01.handle
