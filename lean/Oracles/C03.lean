import EinoV.Basic.OracleLoop
import EinoV.Oracle.C03
def main : IO Unit := EinoV.oracleMain EinoV.Oracle.C03.handle
