import EinoV.Basic.OracleLoop
import EinoV.Oracle.C02
def main : IO Unit := EinoV.oracleMain EinoV.Oracle.C02.handle
