import EinoV.Basic.OracleLoop
import EinoV.Oracle.C13
def main : IO Unit := EinoV.oracleMain EinoV.Oracle.C13.handle
