import EinoV.Basic.OracleLoop
import EinoV.Oracle.C05
def main : IO Unit := EinoV.oracleMain EinoV.Oracle.C05.handle
