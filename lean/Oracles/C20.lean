import EinoV.Basic.OracleLoop
import EinoV.Oracle.C20
def main : IO Unit := EinoV.oracleMain EinoV.Oracle.C20.handle
