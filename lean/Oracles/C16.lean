import EinoV.Basic.OracleLoop
import EinoV.Oracle.C16
def main : IO Unit := EinoV.oracleMain EinoV.Oracle.C16.handle
