import EinoV.Basic.OracleLoop
import EinoV.Oracle.C10
def main : IO Unit := EinoV.oracleMain EinoV.Oracle.C10.handle
