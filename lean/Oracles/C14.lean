import EinoV.Basic.OracleLoop
import EinoV.Oracle.C14
def main : IO Unit := EinoV.oracleMain EinoV.Oracle.C14.handle
